#!/bin/bash
# run the quick check of every claimed property; print one line each
cd /verif
for p in $(python3 -c "import json;print(' '.join(c['property_id'] for c in json.load(open('MANIFEST.json'))['checks']))"); do
  timeout 900 bin/govc check --property $p 2>&1 | tail -1
done
