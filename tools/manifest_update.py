#!/usr/bin/env python3
"""Refresh MANIFEST.json: hooks.source_commits = all 'verif:' commits of /repo; engines.serves_properties = claimed ids."""
import json, subprocess
p = '/verif/MANIFEST.json'
m = json.load(open(p))
log = subprocess.run(['git', '-C', '/repo', 'log', '--format=%h %s'], capture_output=True, text=True).stdout.splitlines()
m['hooks']['source_commits'] = [l.split()[0] for l in reversed(log) if l.split(' ', 1)[1].startswith('verif:')]
ids = sorted(c['property_id'] for c in m['checks'])
m['engines'][0]['serves_properties'] = ids
m['not_applicable'] = [n for n in m.get('not_applicable', []) if n['property_id'] not in ids]
json.dump(m, open(p, 'w'), indent=1)
print(len(m['hooks']['source_commits']), 'hook commits;', len(ids), 'claimed;', [n['property_id'] for n in m['not_applicable']], 'n/a')
