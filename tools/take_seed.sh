#!/bin/bash
# take_seed.sh <id> [suffix]: collect a sub-agent's seeded change from /tmp/wt/<id>(-out), confirm it in the scratch worktree
# (demo fails with / passes without the change; the touched module's suite stays green), run our quick check of <id> with the
# patch applied to /repo (and reverted straight afterwards), store everything in /verif/seeded/<id><suffix>/ and drop the worktree.
id=$1; sfx=$2; wt=/tmp/wt/$id; src=/tmp/wt/$id-out; out=/verif/seeded/$id$sfx
export GOFLAGS=-mod=mod GOPROXY=off GOSUMDB=off GOTOOLCHAIN=local
[ -f $src/patch.diff ] || { echo "no $src/patch.diff"; exit 2; }
mkdir -p $out && cp $src/* $out/ 2>/dev/null
cd $wt || exit 2
log=$out/confirm.log; : > $log
demo=$(git status --porcelain | awk '$1=="??"{print $2}' | grep '_test.go$' | head -1)
stag=staging/src/github.com/kubewharf/apiserver-runtime
mod=$wt; rel=$demo
case "$demo" in $stag/*) mod=$wt/$stag; rel=${demo#$stag/};; esac
pkg=./$(dirname $rel)
echo "demo file: $demo  module: $mod package: $pkg" >> $log
with=$(cd $mod && timeout 900 go test -vet=off -count=1 -run 'Seeded' $pkg 2>&1 | tail -3); echo "WITH CHANGE: $with" >> $log
git diff > /tmp/wt/$id.own.diff; git apply -R /tmp/wt/$id.own.diff   # (git stash is shared between worktrees: not used)
without=$(cd $mod && timeout 900 go test -vet=off -count=1 -run 'Seeded' $pkg 2>&1 | tail -3); echo "WITHOUT CHANGE: $without" >> $log
git apply /tmp/wt/$id.own.diff
mv $demo /tmp/wt/$id.demo
suite=$( (cd $mod && timeout 1500 go build ./... && timeout 1800 go test -vet=off -count=1 ./... ) 2>&1 | grep "^FAIL\|^--- FAIL\|^panic\|\.go:[0-9]*:[0-9]*:" | grep -v "ToStorageMap\|^FAIL$\|apiserver-runtime/pkg/registry" | tail -5); echo "SUITE($mod) unexpected lines: $suite" >> $log
mv /tmp/wt/$id.demo $demo
v1=bad; echo "$with" | grep -q "FAIL" && v1=fails
v2=bad; echo "$without" | grep -q "^ok" && v2=passes
v3=bad; [ -z "$suite" ] && v3=green
echo "SEED $id: demo-with-change=$v1 demo-without-change=$v2 suite-with-change=$v3" | tee -a $log
# our check against the seeded tree
cd /verif
if git -C /repo apply --check $out/patch.diff 2>/dev/null; then
  git -C /repo apply $out/patch.diff
  timeout 1500 bin/govc check --property $id --tier quick --no-evidence > $out/check_with_seed.log 2>&1; rc=$?
  git -C /repo apply -R $out/patch.diff
  echo "CHECK $id with seed applied: exit=$rc $(grep -c '^VIOLATION' $out/check_with_seed.log) violation line(s)" | tee -a $log
  grep "^VIOLATION\|^  failed\|FAILED\|failed:" $out/check_with_seed.log | cut -c1-200 | head -8 | tee -a $log
else
  echo "CHECK $id: patch does not apply to /repo" | tee -a $log
fi
git -C /repo status --porcelain | head -3
git -C /repo worktree remove --force $wt && rm -rf $src
