#!/usr/bin/env python3
"""mkmut.py <kind:mutants|benign> <prop> <name> <file-relative-to-repo> <old> <new> [expect]
Creates /verif/selftest/<kind>/<prop>/<name>.patch replacing the first (unique) occurrence of <old> by <new>."""
import sys, difflib, os
kind, prop, name, rel, old, new = sys.argv[1:7]
expect = sys.argv[7] if len(sys.argv) > 7 else None
src = open(os.path.join('/repo', rel)).read()
if src.count(old) != 1:
    sys.exit("pattern occurs %d times in %s" % (src.count(old), rel))
dst = src.replace(old, new)
d = ''.join(difflib.unified_diff(src.splitlines(True), dst.splitlines(True), 'a/' + rel, 'b/' + rel))
out = os.path.join('/verif/selftest', kind, prop)
os.makedirs(out, exist_ok=True)
open(os.path.join(out, name + '.patch'), 'w').write(d)
if expect:
    open(os.path.join(out, name + '.expect'), 'w').write(expect + '\n')
print("wrote", os.path.join(out, name + '.patch'))
