#!/bin/bash
# confirm_seed.sh <id> : in the scratch worktree /tmp/wt/<id> (agent's change applied, demo in place) confirm that
#  (1) the demo fails with the change, (2) passes without it, (3) the existing suite (both modules) passes with the change.
# Writes /verif/seeded/<id>/confirm.log and prints a one-line verdict.
id=$1; wt=/tmp/wt/$id; out=/verif/seeded/$id
export GOFLAGS=-mod=mod GOPROXY=off GOSUMDB=off GOTOOLCHAIN=local
cd $wt || exit 2
demo=$(git status --porcelain | awk '$1=="??"{print $2}' | grep '_test.go$' | head -1)
pkg=./$(dirname $demo)
log=$out/confirm.log; : > $log
echo "demo file: $demo  package: $pkg" >> $log
git diff > /tmp/wt/$id.patch
with=$(timeout 600 go test -vet=off -count=1 -run 'Seeded' $pkg 2>&1 | tail -3); echo "WITH CHANGE: $with" >> $log
git stash -q
without=$(timeout 600 go test -vet=off -count=1 -run 'Seeded' $pkg 2>&1 | tail -3); echo "WITHOUT CHANGE: $without" >> $log
git stash pop -q
mv $demo /tmp/wt/$id.demo
suite=$( (timeout 1500 go build ./... && timeout 1500 go test -vet=off -count=1 ./... ) 2>&1 | grep "^FAIL\|^--- FAIL\|^panic\|cannot\|\.go:[0-9]*:[0-9]*:" | tail -5); echo "SUITE(root) non-ok lines: $suite" >> $log
stag=$( (cd staging/src/github.com/kubewharf/apiserver-runtime && timeout 1500 go build ./... && timeout 1500 go test -vet=off -count=1 ./... ) 2>&1 | grep "^FAIL\|^--- FAIL\|^panic" | grep -v "ToStorageMap\|^FAIL$\|pkg/registry" | tail -5); echo "SUITE(staging) unexpected lines: $stag" >> $log
mv /tmp/wt/$id.demo $demo
v1=bad; echo "$with" | grep -q "^FAIL\|FAIL" && v1=fails
v2=bad; echo "$without" | grep -q "^ok" && v2=passes
v3=bad; [ -z "$suite" ] && [ -z "$stag" ] && v3=green
echo "SEED $id: demo-with-change=$v1 demo-without-change=$v2 suite-with-change=$v3" | tee -a $log
