package main

// Instruction-level translation.

import (
	"fmt"
	"go/token"
	"go/types"
	"sort"
	"strings"

	"golang.org/x/tools/go/ssa"
)

// modifiedInLoop computes the set of component keys written in a loop body; all=true if unknown effects.
func (fr *frame) modifiedInLoop(h *ssa.BasicBlock) (keys map[string]bool, all bool, localAllocs map[*ssa.Alloc]bool) {
	return fr.effectsOf(fr.loopBlocks[h])
}

// effectsOf: components written by the given blocks.
func (fr *frame) effectsOf(blocks map[*ssa.BasicBlock]bool) (keys map[string]bool, all bool, localAllocs map[*ssa.Alloc]bool) {
	fc := fr.fc
	keys = map[string]bool{}
	localAllocs = map[*ssa.Alloc]bool{}
	var baseOf func(v ssa.Value) (ssa.Value, []int)
	baseOf = func(v ssa.Value) (ssa.Value, []int) {
		switch x := v.(type) {
		case *ssa.FieldAddr:
			b, p := baseOf(x.X)
			return b, append(p, x.Field)
		case *ssa.IndexAddr:
			b, p := baseOf(x.X)
			return b, append(p, -1)
		case *ssa.UnOp:
			if _, isSlice := x.Type().Underlying().(*types.Slice); isSlice && x.Op == token.MUL {
				return baseOf(x.X)
			}
		}
		return v, nil
	}
	fr.nonAllocWrites = map[string]bool{}
	fr.funcFreshWrites = map[string]bool{}
	markStore := func(addrV ssa.Value) {
		base, path := baseOf(addrV)
		fromLoopAlloc := false
		switch bb := base.(type) {
		case *ssa.Alloc:
			if !bb.Heap || isArrayAlloc(bb) {
				localAllocs[bb] = true
				return
			}
			fromLoopAlloc = blocks[bb.Block()]
		case *ssa.Global:
			keys[fc.globalComp(bb)] = true
			return
		}
		pt, ok := base.Type().Underlying().(*types.Pointer)
		if !ok {
			all = true
			return
		}
		if _, isStruct := pt.Elem().Underlying().(*types.Struct); isStruct {
			if len(path) > 0 && path[0] >= 0 {
				k, _ := fc.fieldComp(pt.Elem(), path[0])
				keys[k] = true
				if !fromLoopAlloc {
					fr.nonAllocWrites[k] = true
				}
			} else {
				st := pt.Elem().Underlying().(*types.Struct)
				for i := 0; i < st.NumFields(); i++ {
					k, _ := fc.fieldComp(pt.Elem(), i)
					keys[k] = true
					if !fromLoopAlloc {
						fr.nonAllocWrites[k] = true
					}
				}
			}
			return
		}
		if _, isSlice := base.Type().Underlying().(*types.Slice); isSlice {
			all = true
			return
		}
		keys[fc.cellComp(pt.Elem())] = true
		if !fromLoopAlloc {
			fr.nonAllocWrites[fc.cellComp(pt.Elem())] = true
		}
	}
	for b := range blocks {
		for _, in := range b.Instrs {
			switch in := in.(type) {
			case *ssa.Store:
				markStore(in.Addr)
			case *ssa.MapUpdate:
				if mt, ok := in.Map.Type().Underlying().(*types.Map); ok {
					mv, md, _, _ := fc.mapComps(mt)
					keys[mv], keys[md] = true, true
					if _, fresh := in.Map.(*ssa.MakeMap); !fresh {
						fr.nonAllocWrites[mv], fr.nonAllocWrites[md] = true, true
					} else {
						fr.funcFreshWrites[mv], fr.funcFreshWrites[md] = true, true
					}
				}
			case *ssa.Alloc:
				keys["TOP"] = true
				if in.Heap && !isArrayAlloc(in) {
					el := in.Type().(*types.Pointer).Elem()
					if st, ok := el.Underlying().(*types.Struct); ok {
						for i := 0; i < st.NumFields(); i++ {
							k, _ := fc.fieldComp(el, i)
							keys[k] = true
						}
					} else {
						keys[fc.cellComp(el)] = true
					}
				} else {
					localAllocs[in] = true
				}
			case *ssa.MakeMap:
				keys["TOP"] = true
				if mt, ok := in.Type().Underlying().(*types.Map); ok {
					mv, md, _, _ := fc.mapComps(mt)
					keys[mv], keys[md] = true, true
				}
			case *ssa.MakeClosure, *ssa.MakeChan, *ssa.MakeSlice:
				keys["TOP"] = true
			case *ssa.Go:
				// the spawner only records the spawn
				fc.compDecl("G:spawned", "(Array Int Bool)")
				keys["G:spawned"] = true
				fr.nonAllocWrites["G:spawned"] = true
			case ssa.CallInstruction:
				ks, a := fr.callEffects(in.Common())
				if a {
					all = true
				}
				for k := range ks {
					keys[k] = true
					fr.nonAllocWrites[k] = true
				}
				// locals passed by address
				for _, arg := range in.Common().Args {
					base, _ := baseOf(arg)
					if al, ok := base.(*ssa.Alloc); ok && (!al.Heap || isArrayAlloc(al)) {
						localAllocs[al] = true
					}
				}
				if _, isDefer := in.(*ssa.Defer); isDefer && !fr.effectsOnly {
					fc.errf("%s: defer inside a loop is outside the supported subset", fr.fn.Name())
				}
			case *ssa.Select, *ssa.Send:
				// channel operations: no heap effect in the model
			}
		}
	}
	return
}

// callEffects: static over-approximation of what a call may modify (used for loop havoc).
func (fr *frame) callEffects(cc *ssa.CallCommon) (keys map[string]bool, all bool) {
	fc := fr.fc
	keys = map[string]bool{}
	if _, ok := cc.Value.(*ssa.Builtin); ok {
		if cc.Value.Name() == "delete" {
			if mt, ok := cc.Args[0].Type().Underlying().(*types.Map); ok {
				mv, md, _, _ := fc.mapComps(mt)
				keys[mv], keys[md] = true, true
			}
		}
		if cc.Value.Name() == "copy" {
			return keys, true
		}
		return keys, false
	}
	kind, ctr, callee := fr.classifyCall(cc)
	switch kind {
	case callIntrinsic:
		name := intrinsicName(cc)
		if strings.HasPrefix(name, "(*sync.Map).") && name != "(*sync.Map).Load" {
			smv, smd := fc.syncMapComps()
			keys[smv], keys[smd] = true, true
			return keys, false
		}
		if name == "(*sync/atomic.Value).Store" {
			return keys, true
		}
		if strings.HasPrefix(name, "sync/atomic.") && !strings.HasPrefix(name, "sync/atomic.Load") {
			// writes through the first argument
			if pt, ok := cc.Args[0].Type().Underlying().(*types.Pointer); ok {
				base, path := cc.Args[0], []int(nil)
				for {
					if fa, ok := base.(*ssa.FieldAddr); ok {
						path = append([]int{fa.Field}, path...)
						base = fa.X
						continue
					}
					break
				}
				if bpt, ok := base.Type().Underlying().(*types.Pointer); ok && len(path) > 0 {
					if _, isS := bpt.Elem().Underlying().(*types.Struct); isS {
						k, _ := fc.fieldComp(bpt.Elem(), path[0])
						keys[k] = true
						return keys, false
					}
				}
				keys[fc.cellComp(pt.Elem())] = true
			}
		}
		return keys, false
	case callPure:
		return keys, false
	case callDynamic:
		if fc.pureMode {
			return keys, false
		}
		return keys, true
	case callContract:
		for _, gs := range ctr.GhostSets {
			keys["G:"+gs.Name] = true // ghost code at the callee's exit
		}
		if ctr.Pure || (!ctr.HasMod && !ctr.Trusted) {
			return keys, false
		}
		if !ctr.HasMod {
			return keys, false
		}
		for _, m := range ctr.Modifies {
			if m == "*" {
				return keys, true
			}
		}
		// precise keys need argument types: be conservative per item kind
		for _, m := range ctr.Modifies {
			for _, k := range fr.modifiesKeys(ctr, callee, cc, m) {
				if k == "*" {
					return keys, true
				}
				keys[k] = true
			}
		}
		return keys, false
	case callInline:
		// effects of the inlined body
		sub := newFrame(fc, callee, "")
		sub.effectsOnly = true
		blocks := map[*ssa.BasicBlock]bool{}
		for _, b := range callee.Blocks {
			if b != callee.Recover {
				blocks[b] = true
			}
		}
		fc.depth++
		ks, a, _ := sub.effectsOf(blocks)
		fc.depth--
		delete(ks, "TOP")
		return ks, a
	}
	return keys, true
}

// ---------- main per-frame translation ----------

func (fr *frame) run(entry *State, entryReach string) {
	fc := fr.fc
	fn := fr.fn
	fr.entryState = entry
	fr.entryReach = entryReach
	order := fr.topoOrder()
	isHeader := map[*ssa.BasicBlock]bool{}
	for _, h := range fr.headers {
		isHeader[h] = true
	}
	if fr.inlined && len(fr.headers) > 0 {
		fc.errf("inlined callee %s has loops", fn.Name())
	}
	for _, b := range order {
		R := fc.declare(fmt.Sprintf("%sR_%d", fr.prefix, b.Index), "Bool")
		fr.reach[b] = R
		var conds []string
		var sts []*State
		var preds []*ssa.BasicBlock
		for _, p := range b.Preds {
			if fr.back[[2]int{p.Index, b.Index}] {
				continue
			}
			if e, ok := fr.edge[[2]int{p.Index, b.Index}]; ok {
				conds = append(conds, e)
				sts = append(sts, fr.exit[p])
				preds = append(preds, p)
			}
		}
		var st *State
		if b.Index == 0 {
			fc.fact("", "(= %s %s)", R, entryReach)
			st = entry.clone()
		} else if len(conds) == 0 {
			fc.fact("", "(= %s false)", R)
			st = entry.clone()
		} else {
			if len(conds) == 1 {
				fc.fact("", "(= %s %s)", R, conds[0])
			} else {
				fc.fact("", "(= %s (or %s))", R, strings.Join(conds, " "))
			}
			st = fc.mergeStates(conds, sts, fmt.Sprintf("%sb%d", fr.prefix, b.Index))
		}
		if isHeader[b] {
			// declare phis as unconstrained, check invariants on entry edges, havoc, assume invariants
			for _, in := range b.Instrs {
				if phi, ok := in.(*ssa.Phi); ok {
					fr.declareVal(phi)
					fr.rangeAssume(fr.vals[phi], phi.Type())
					if _, isSlice := phi.Type().Underlying().(*types.Slice); isSlice {
						fc.fact("", "(<= (len_%s %s) 4611686018427387903)", fc.P.SortOf(phi.Type()), fr.vals[phi])
					}
				}
			}
			fr.loopEntry[fr.ordinal[b]] = st.clone()
			fr.checkInvariants(b, preds, false)
			keys, all, locals := fr.modifiedInLoop(b)
			preTop := st.comp["TOP"]
			if all {
				fc.havocAll(st)
			}
			var ks []string
			for k := range keys {
				ks = append(ks, k)
			}
			sort.Strings(ks)
			for _, k := range ks {
				if k == "TOP" {
					nt := fc.freshConst(fr.prefix+"top", "Int")
					fc.fact("", "(>= %s %s)", nt, st.comp["TOP"])
					st.comp["TOP"] = nt
					continue
				}
				if all && isHeapKey(k) {
					continue
				}
				pre := fc.lookup(st, k)
				st.comp[k] = fc.freshConst(fmt.Sprintf("%slh%d_%s", fr.prefix, b.Index, k), fc.compSort[k])
				if (strings.HasPrefix(k, "H:") || strings.HasPrefix(k, "C:") || strings.HasPrefix(k, "MV:") || strings.HasPrefix(k, "MD:")) && !fr.nonAllocWrites[k] {
					// the loop writes this component only at objects it allocates itself (or that this function
					// allocated): older objects are unchanged
					bound := preTop
					if fr.funcFreshWrites[k] {
						bound = fc.entry.comp["TOP"]
					}
					fc.fact("", "(forall ((r Int)) (! (=> (< r %s) (= (select %s r) (select %s r))) :pattern ((select %s r))))", bound, st.comp[k], pre, st.comp[k])
				}
			}
			for al := range locals {
				if a, ok := fr.addrs[al]; ok && a.kind == 1 {
					if _, live := st.comp[a.key]; live {
						st.comp[a.key] = fc.freshConst(fmt.Sprintf("%slh%d_%s", fr.prefix, b.Index, a.key), fc.compSort[a.key])
					}
				}
			}
			// map-range loops: the iterator position is loop-carried ghost state (no phi in go/ssa): arbitrary at the cut point
			for _, in := range b.Instrs {
				if nx, ok := in.(*ssa.Next); ok {
					if rng, ok := nx.Iter.(*ssa.Range); ok && rangeInfos[rng] != nil {
						ri := rangeInfos[rng]
						key := "L:" + fr.prefix + "rangepos_" + rng.Name()
						fc.compDecl(key, "Int")
						np := fc.freshConst(fmt.Sprintf("%slh%d_rangepos", fr.prefix, b.Index), "Int")
						fc.fact("", "(and (<= 0 %s) (<= %s (len_%s %s)))", np, np, fc.P.SeqSort(ri.ks), ri.keys)
						st.comp[key] = np
					}
				}
			}
			fr.entrySt[b] = st.clone()
			fr.assumeInvariants(b, st)
		} else {
			fr.entrySt[b] = st.clone()
		}
		for idx, in := range b.Instrs {
			fr.instr(b, idx, in, st, R, isHeader[b])
		}
		fr.exit[b] = st
	}
	// back edges: invariant preservation
	for _, h := range fr.headers {
		var bp []*ssa.BasicBlock
		for _, p := range h.Preds {
			if fr.back[[2]int{p.Index, h.Index}] {
				if _, ok := fr.edge[[2]int{p.Index, h.Index}]; ok {
					bp = append(bp, p)
				}
			}
		}
		fr.checkInvariants(h, bp, true)
	}
}

func (fr *frame) edgeDef(from, to *ssa.BasicBlock, cond string) {
	k := [2]int{from.Index, to.Index}
	if old, dup := fr.edge[k]; dup {
		// both branches of an If go to the same block
		n := fr.fc.freshConst(fr.prefix+"E", "Bool")
		fr.fc.fact("", "(= %s (or %s %s))", n, old, cond)
		fr.edge[k] = n
		return
	}
	n := fr.fc.declare(fmt.Sprintf("%sE_%d_%d", fr.prefix, from.Index, to.Index), "Bool")
	fr.fc.fact("", "(= %s %s)", n, cond)
	fr.edge[k] = n
}

// baseAlloc: the allocation an address value is derived from (through field/index address computations).
func baseAlloc(v ssa.Value) *ssa.Alloc {
	for {
		switch x := v.(type) {
		case *ssa.Alloc:
			return x
		case *ssa.FieldAddr:
			v = x.X
		case *ssa.IndexAddr:
			v = x.X
		default:
			return nil
		}
	}
}

// markEscapes records which fresh allocations become reachable by other code through this instruction.
func (fr *frame) markEscapes(in ssa.Instruction) {
	esc := func(v ssa.Value) {
		if al := baseAlloc(v); al != nil {
			fr.unescaped[al] = false
		}
	}
	switch in := in.(type) {
	case *ssa.Store:
		esc(in.Val)
	case *ssa.MapUpdate:
		esc(in.Key)
		esc(in.Value)
	case *ssa.MakeInterface:
		esc(in.X)
	case *ssa.MakeClosure:
		for _, b := range in.Bindings {
			esc(b)
		}
	case *ssa.Return:
		for _, r := range in.Results {
			esc(r)
		}
	case *ssa.Phi:
		for _, e := range in.Edges {
			esc(e)
		}
	case *ssa.Send:
		esc(in.X)
	case *ssa.ChangeType:
		esc(in.X)
	case *ssa.Convert:
		esc(in.X)
	case *ssa.Slice:
		if al := baseAlloc(in.X); al != nil && !isArrayAlloc(al) {
			esc(in.X)
		}
	case ssa.CallInstruction:
		cc := in.Common()
		if _, isB := cc.Value.(*ssa.Builtin); isB {
			return
		}
		if !cc.IsInvoke() {
			if kind, _, _ := fr.classifyCall(cc); kind == callIntrinsic {
				return
			}
		}
		esc(cc.Value)
		for _, a := range cc.Args {
			esc(a)
		}
	}
}

func (fr *frame) instr(b *ssa.BasicBlock, idx int, in ssa.Instruction, st *State, R string, header bool) {
	fc := fr.fc
	P := fc.P
	fr.markEscapes(in)
	switch in := in.(type) {
	case *ssa.DebugRef:
	case *ssa.Phi:
		if header {
			return
		}
		var cs, ts []string
		for i, e := range in.Edges {
			p := b.Preds[i]
			c, ok := fr.edge[[2]int{p.Index, b.Index}]
			if !ok {
				continue
			}
			if a, isAddr := fr.addrs[e]; isAddr && !(a.kind == 2 && len(a.path) == 0) {
				fc.abstract("phi of interior pointers")
			}
			cs = append(cs, c)
			ts = append(ts, fr.val(e))
		}
		if len(ts) == 0 {
			fr.declareVal(in)
			return
		}
		fr.define(in, iteChain(cs, ts))
	case *ssa.Alloc:
		el := in.Type().(*types.Pointer).Elem()
		if in.Heap && !isArrayAlloc(in) {
			ref := fr.declareVal(in)
			fc.fact("", "(and (>= %s %s) (> %s 0))", ref, st.comp["TOP"], ref)
			nt := fc.freshConst(fr.prefix+"top", "Int")
			fc.fact("", "(= %s (+ %s 1))", nt, ref)
			st.comp["TOP"] = nt
			fc.storeHeapValue(st, ref, el, P.ZeroOf(el))
			fr.addrs[in] = &addr{kind: 2, ref: ref, T: el}
			fr.unescaped[in] = true
			if containsSyncMap(el, 0) {
				fc.resetSyncMaps(st, el, ref)
			}
		} else {
			key := fmt.Sprintf("L:%s%s", fr.prefix, in.Name())
			fc.compDecl(key, P.SortOf(el))
			st.comp[key] = P.ZeroOf(el)
			if arr, ok := el.Underlying().(*types.Array); ok && arr.Len() <= 16 {
				var elems []string
				for i := int64(0); i < arr.Len(); i++ {
					elems = append(elems, P.ZeroOf(arr.Elem()))
				}
				st.comp[key] = fc.arrayLit(P.SeqSort(P.SortOf(arr.Elem())), elems)
			}
			fr.addrs[in] = &addr{kind: 1, key: key, T: el}
		}
	case *ssa.FieldAddr:
		fr.addrs[in] = fr.extend(in.X, pathEl{field: in.Field}, st, R)
	case *ssa.IndexAddr:
		idxT := fr.val(in.Index)
		if _, isSlice := in.X.Type().Underlying().(*types.Slice); isSlice {
			es := P.SortOf(in.X.Type().Underlying().(*types.Slice).Elem())
			s := P.SeqSort(es)
			fr.safetyObl(R, "index", in, fmt.Sprintf("(and (<= 0 %s) (< %s (len_%s %s)))", idxT, idxT, s, fr.val(in.X)))
			if lf, ok := fr.loadedFrom[in.X]; ok {
				// the slice was loaded from a location that still holds the same value: address the element in place
				if cur, _ := fc.load(st, lf.a); cur == lf.term {
					na := *lf.a
					na.path = append(append([]pathEl{}, lf.a.path...), pathEl{isIdx: true, index: idxT})
					fr.addrs[in] = &na
					return
				}
			}
			fr.addrs[in] = &addr{kind: 3, seq: fr.val(in.X), seqT: in.X.Type(), path: []pathEl{{isIdx: true, index: idxT}}}
			// remember the slice origin so that element stores into local/fresh slices can be handled
			return
		}
		// pointer to array
		fr.addrs[in] = fr.extend(in.X, pathEl{isIdx: true, index: idxT}, st, R)
	case *ssa.Store:
		a := fr.addrOf(in.Addr, st, R)
		if a == nil {
			fc.errf("%s: store to unknown address %s", fr.fn.Name(), in.Addr)
			return
		}
		v := fr.val(in.Val)
		if a.kind == 3 {
			fc.abstract("stores through slice elements are not modelled (backing array aliasing): " + fr.fn.Name())
			fc.havocAll(st)
			return
		}
		fc.store(st, a, v)
		if containsSyncMap(in.Val.Type(), 0) {
			if at, ok := fc.addrTerm(a); ok {
				// only zero values are ever stored (sync.Map must not be copied)
				fc.resetSyncMaps(st, in.Val.Type(), at)
			}
		}
	case *ssa.UnOp:
		switch in.Op {
		case token.MUL:
			a := fr.addrOf(in.X, st, R)
			if a == nil {
				fc.errf("%s: load from unknown address %s", fr.fn.Name(), in.X)
				fr.declareVal(in)
				return
			}
			t, _ := fc.load(st, a)
			n := fr.define(in, t)
			fr.loadedAssume(n, in.Type(), st)
			// heap well-formedness at entry: a reference read from a field of an object that existed at entry, out of a
			// component nobody has written since entry, was allocated before the function started
			if a.kind == 2 && len(a.path) == 1 && !a.path[0].isIdx && fc.entry != nil {
				if _, isS := a.T.Underlying().(*types.Struct); isS {
					k, _ := fc.fieldComp(a.T, a.path[0].field)
					if cur, ent := fc.lookup(st, k), fc.lookup(fc.entry, k); cur == ent {
						top0 := fc.entry.comp["TOP"]
						switch in.Type().Underlying().(type) {
						case *types.Pointer, *types.Map:
							fc.fact("", "(=> (< %s %s) (< %s %s))", a.ref, top0, n, top0)
						case *types.Interface:
							fc.P.needTagof()
							fc.fact("", "(=> (< %s %s) (< (ptrin %s) %s))", a.ref, top0, n, top0)
						}
					}
				}
			}
			if _, isSlice := in.Type().Underlying().(*types.Slice); isSlice && a.kind != 3 {
				fr.loadedFrom[in] = &loadedFrom{a: a, term: t}
			}
		case token.NOT:
			fr.define(in, fmt.Sprintf("(not %s)", fr.val(in.X)))
		case token.SUB:
			if P.SortOf(in.Type()) == "Real" {
				fr.define(in, fmt.Sprintf("(- %s)", fr.val(in.X)))
			} else {
				fr.define(in, fc.wrap(fmt.Sprintf("(- %s)", fr.val(in.X)), in.Type()))
			}
		case token.ARROW:
			n := fr.declareVal(in) // channel receive: havoc
			_ = n
		case token.XOR:
			fr.declareVal(in)
			fc.abstract("bitwise complement treated as unconstrained")
		default:
			fc.errf("unop %s", in.Op)
			fr.declareVal(in)
		}
	case *ssa.BinOp:
		fr.define(in, fr.binop(in, R))
	case *ssa.Convert:
		fr.define(in, fr.convert(in))
	case *ssa.ChangeType:
		fr.define(in, fr.val(in.X))
	case *ssa.MultiConvert:
		fr.declareVal(in)
	case *ssa.ChangeInterface:
		fr.define(in, fr.val(in.X))
	case *ssa.MakeInterface:
		if tn, ok := in.X.Type().Underlying().(*types.Interface); ok {
			_ = tn
			fr.define(in, fr.val(in.X))
			return
		}
		k := P.Box(in.X.Type())
		x := fr.val(in.X)
		if _, ok := fr.addrs[in.X]; ok {
			x = fr.materialize(st, in.X)
		}
		fr.define(in, fmt.Sprintf("(box_%s %s)", k, x))
	case *ssa.TypeAssert:
		fr.typeAssert(in, st, R)
	case *ssa.Slice:
		fr.sliceOp(in, st, R)
	case *ssa.Index:
		switch u := in.X.Type().Underlying().(type) {
		case *types.Basic:
			fr.safetyObl(R, "index", in, fmt.Sprintf("(and (<= 0 %s) (< %s (str.len %s)))", fr.val(in.Index), fr.val(in.Index), fr.val(in.X)))
			fr.define(in, fmt.Sprintf("(str.to_code (str.at %s %s))", fr.val(in.X), fr.val(in.Index)))
		case *types.Array:
			s := P.SeqSort(P.SortOf(u.Elem()))
			fr.define(in, fmt.Sprintf("(at_%s %s %s)", s, fr.val(in.X), fr.val(in.Index)))
		default:
			fc.errf("index of %s", in.X.Type())
			fr.declareVal(in)
		}
	case *ssa.Field:
		fr.define(in, fmt.Sprintf("(%s_f%d %s)", P.SortOf(in.X.Type()), in.Field, fr.val(in.X)))
	case *ssa.Extract:
		base := fr.vals[in.Tuple]
		n := fmt.Sprintf("%s_r%d", base, in.Index)
		fc.declare(n, P.SortOf(in.Type()))
		fr.vals[in] = n
	case *ssa.Lookup:
		fr.lookupOp(in, st, R)
	case *ssa.MapUpdate:
		mt := in.Map.Type().Underlying().(*types.Map)
		mv, md, _, _ := fc.mapComps(mt)
		m := fr.val(in.Map)
		fr.safetyObl(R, "mapwrite", in, fmt.Sprintf("(not (= %s 0))", m))
		k, v := fr.val(in.Key), fr.val(in.Value)
		st.comp[mv] = fmt.Sprintf("(store %s %s (store (select %s %s) %s %s))", fc.lookup(st, mv), m, fc.lookup(st, mv), m, k, v)
		st.comp[md] = fmt.Sprintf("(store %s %s (store (select %s %s) %s true))", fc.lookup(st, md), m, fc.lookup(st, md), m, k)
	case *ssa.MakeMap:
		mt := in.Type().Underlying().(*types.Map)
		mv, md, ks, vs := fc.mapComps(mt)
		ref := fr.declareVal(in)
		fc.fact("", "(and (>= %s %s) (> %s 0))", ref, st.comp["TOP"], ref)
		nt := fc.freshConst(fr.prefix+"top", "Int")
		fc.fact("", "(= %s (+ %s 1))", nt, ref)
		st.comp["TOP"] = nt
		st.comp[md] = fmt.Sprintf("(store %s %s ((as const (Array %s Bool)) false))", fc.lookup(st, md), ref, ks)
		st.comp[mv] = fmt.Sprintf("(store %s %s ((as const (Array %s %s)) %s))", fc.lookup(st, mv), ref, ks, vs, P.ZeroOf(mt.Elem()))
	case *ssa.MakeSlice:
		n := fr.declareVal(in)
		s := P.SortOf(in.Type())
		el := in.Type().Underlying().(*types.Slice).Elem()
		fc.fact("", "(= (len_%s %s) %s)", s, n, fr.val(in.Len))
		fc.fact("", "(forall ((i Int)) (! (=> (and (<= 0 i) (< i (len_%s %s))) (= (at_%s %s i) %s)) :pattern ((at_%s %s i))))", s, n, s, n, P.ZeroOf(el), s, n)
	case *ssa.MakeChan:
		n := fr.declareVal(in)
		fc.fact("", "(> %s 0)", n)
	case *ssa.MakeClosure:
		fr.makeClosure(in, st, R)
	case *ssa.Call:
		fr.call(in, in.Common(), st, R, b)
	case *ssa.Defer:
		d := &deferred{call: in.Common(), guard: R, blk: b, instr: in}
		for _, a := range in.Common().Args {
			d.args = append(d.args, fr.val(a))
		}
		fr.defers = append(fr.defers, d)
	case *ssa.RunDefers:
		for i := len(fr.defers) - 1; i >= 0; i-- {
			d := fr.defers[i]
			dominates := d.blk.Dominates(b)
			if dominates {
				fr.call(nil, d.call, st, R, b)
			} else {
				before := st.clone()
				fr.call(nil, d.call, st, R, b)
				merged := fc.mergeStates([]string{d.guard, "true"}, []*State{st, before}, fmt.Sprintf("%sdefer%d_b%d", fr.prefix, i, b.Index))
				*st = *merged
			}
		}
	case *ssa.Go:
		// spawning has no effect on the spawner in this model; a spawned closure is recorded in the ghost set `spawned`
		// (its identity and captured values are known from the MakeClosure facts)
		if _, isClo := fr.closures[in.Call.Value]; isClo && !in.Call.IsInvoke() {
			fc.compDecl("G:spawned", "(Array Int Bool)")
			st.comp["G:spawned"] = fmt.Sprintf("(store %s %s true)", fc.lookup(st, "G:spawned"), fr.val(in.Call.Value))
		}
		fc.abstract("go statements: the spawned function has no effect on the spawner")
	case *ssa.Send:
		fc.abstract("channel sends are no-ops")
	case *ssa.Select:
		fr.declareVal(in)
		n := fr.vals[in]
		// tuple: index, recvOk, values...
		tup := in.Type().(*types.Tuple)
		for i := 0; i < tup.Len(); i++ {
			fc.declare(fmt.Sprintf("%s_r%d", n, i), P.SortOf(tup.At(i).Type()))
		}
		if !in.Blocking {
			fc.fact("", "(and (<= (- 1) %s_r0) (< %s_r0 %d))", n, n, len(in.States))
		} else {
			fc.fact("", "(and (<= 0 %s_r0) (< %s_r0 %d))", n, n, len(in.States))
		}
		fc.abstract("select: an arbitrary ready case is chosen")
	case *ssa.Range:
		fr.rangeInit(in, st)
	case *ssa.Next:
		fr.rangeNext(in, st, R)
	case *ssa.If:
		c := fr.val(in.Cond)
		fr.edgeDef(b, b.Succs[0], fmt.Sprintf("(and %s %s)", R, c))
		fr.edgeDef(b, b.Succs[1], fmt.Sprintf("(and %s (not %s))", R, c))
	case *ssa.Jump:
		fr.edgeDef(b, b.Succs[0], R)
	case *ssa.Return:
		var rs []string
		for _, r := range in.Results {
			if _, ok := fr.addrs[r]; ok {
				rs = append(rs, fr.materialize(st, r))
			} else {
				rs = append(rs, fr.val(r))
			}
		}
		fr.rets = append(fr.rets, retSite{reach: R, results: rs, state: st.clone(), blk: b})
	case *ssa.Panic:
		if fc.safety {
			fr.safetyObl(R, "panic", in, "false")
		}
	default:
		fc.errf("%s: unsupported instruction %T: %s", fr.fn.Name(), in, in)
		if v, ok := in.(ssa.Value); ok {
			fr.declareVal(v)
		}
	}
}

func (fr *frame) loadedAssume(n string, T types.Type, st *State) {
	fc := fr.fc
	fr.rangeAssume(n, T)
	switch T.Underlying().(type) {
	case *types.Slice:
		// Go slices have fewer than 2^62 elements (an assumption about run-time values, not about the abstract sort)
		fc.fact("", "(<= (len_%s %s) 4611686018427387903)", fc.P.SortOf(T), n)
		if sl, ok := T.Underlying().(*types.Slice); ok {
			switch sl.Elem().Underlying().(type) {
			case *types.Pointer, *types.Map:
				// heap well-formedness: the references held in a slice are allocated
				ss := fc.P.SortOf(T)
				fc.fact("", "(forall ((i Int)) (! (=> (and (<= 0 i) (< i (len_%s %s))) (and (>= (at_%s %s i) 0) (< (at_%s %s i) %s))) :pattern ((at_%s %s i))))", ss, n, ss, n, ss, n, st.comp["TOP"], ss, n)
			}
		}
	case *types.Pointer, *types.Map:
		fc.fact("", "(and (>= %s 0) (< %s %s))", n, n, st.comp["TOP"])
	case *types.Interface:
		fc.P.needTagof()
		fc.fact("", "(< (ptrin %s) %s)", n, st.comp["TOP"])
	}
}

// extend an address by a path element; base may be a symbolic address or a pointer value.
func (fr *frame) extend(x ssa.Value, pe pathEl, st *State, R string) *addr {
	fc := fr.fc
	if a, ok := fr.addrs[x]; ok {
		na := *a
		na.path = append(append([]pathEl{}, a.path...), pe)
		return &na
	}
	if g, ok := x.(*ssa.Global); ok {
		return &addr{kind: 4, glob: g, T: g.Type().(*types.Pointer).Elem(), path: []pathEl{pe}}
	}
	pt, ok := x.Type().Underlying().(*types.Pointer)
	if !ok {
		fc.errf("address base %s is not a pointer", x)
		return nil
	}
	ref := fr.val(x)
	fr.safetyObl(R, "nil", x.(ssa.Value), fmt.Sprintf("(not (= %s 0))", ref))
	return &addr{kind: 2, ref: ref, T: pt.Elem(), path: []pathEl{pe}}
}

func (fr *frame) addrOf(x ssa.Value, st *State, R string) *addr {
	if a, ok := fr.addrs[x]; ok {
		return a
	}
	if g, ok := x.(*ssa.Global); ok {
		return &addr{kind: 4, glob: g, T: g.Type().(*types.Pointer).Elem()}
	}
	pt, ok := x.Type().Underlying().(*types.Pointer)
	if !ok {
		return nil
	}
	ref := fr.val(x)
	fr.safetyObl(R, "nil", x, fmt.Sprintf("(not (= %s 0))", ref))
	return &addr{kind: 2, ref: ref, T: pt.Elem()}
}

func (fr *frame) safetyObl(R, kind string, at interface{}, goal string) {
	fc := fr.fc
	if !fc.safety {
		// panics are assumed away: the path continues only if the operation is safe
		if goal != "false" {
			fc.fact("", "(=> %s %s)", R, goal)
		} else {
			fc.fact("", "(not %s)", R)
		}
		return
	}
	fc.safetyN[kind]++
	site := ""
	if in, ok := at.(ssa.Instruction); ok && in.Pos().IsValid() {
		p := fr.fn.Prog.Fset.Position(in.Pos())
		site = fmt.Sprintf("%s:%d", shortFile(p.Filename), p.Line)
	} else if v, ok := at.(ssa.Value); ok && v.Pos().IsValid() {
		p := fr.fn.Prog.Fset.Position(v.Pos())
		site = fmt.Sprintf("%s:%d", shortFile(p.Filename), p.Line)
	}
	fc.obls = append(fc.obls, &Obl{Func: fc.key, Kind: "safety", Label: kind, Site: fmt.Sprintf("%s%s#%d", fr.prefix, site, fc.safetyN[kind]), NFacts: len(fc.facts), Path: R, Goal: goal})
	fc.fact("", "(=> %s %s)", R, goal)
}

func shortFile(f string) string {
	if i := strings.LastIndex(f, "/"); i >= 0 {
		return f[i+1:]
	}
	return f
}

// ---------- arithmetic ----------

func (fc *FnCtx) wrap(term string, T types.Type) string {
	bits, signed, ok := intInfo(T)
	if !ok || bits >= 64 {
		return term
	}
	name := fmt.Sprintf("wrap_%s%d", map[bool]string{true: "s", false: "u"}[signed], bits)
	if signed {
		fc.P.Declare(name, fmt.Sprintf("(define-fun %s ((x Int)) Int (- (mod (+ x %d) %d) %d))", name, int64(1)<<(bits-1), int64(1)<<bits, int64(1)<<(bits-1)))
	} else {
		fc.P.Declare(name, fmt.Sprintf("(define-fun %s ((x Int)) Int (mod x %d))", name, int64(1)<<bits))
	}
	return fmt.Sprintf("(%s %s)", name, term)
}

func (fc *FnCtx) needDiv() {
	fc.P.Declare("godiv", "(define-fun godiv ((a Int) (b Int)) Int (ite (>= a 0) (div a b) (- (div (- a) b))))")
	fc.P.Declare("gorem", "(define-fun gorem ((a Int) (b Int)) Int (- a (* b (godiv a b))))")
}

func (fr *frame) binop(in *ssa.BinOp, R string) string {
	fc := fr.fc
	x, y := fr.val(in.X), fr.val(in.Y)
	xs := fc.P.SortOf(in.X.Type())
	T := in.Type()
	switch in.Op {
	case token.ADD:
		switch xs {
		case "String":
			return fmt.Sprintf("(str.++ %s %s)", x, y)
		case "Real":
			return fmt.Sprintf("(+ %s %s)", x, y)
		}
		return fc.wrap(fmt.Sprintf("(+ %s %s)", x, y), T)
	case token.SUB:
		if xs == "Real" {
			return fmt.Sprintf("(- %s %s)", x, y)
		}
		if bits, signed, _ := intInfo(T); bits == 64 && !signed {
			fc.P.Declare("wrap_u64", "(define-fun wrap_u64 ((x Int)) Int (mod x 18446744073709551616))")
			return fmt.Sprintf("(wrap_u64 (- %s %s))", x, y)
		}
		return fc.wrap(fmt.Sprintf("(- %s %s)", x, y), T)
	case token.MUL:
		if xs == "Real" {
			return fmt.Sprintf("(* %s %s)", x, y)
		}
		return fc.wrap(fmt.Sprintf("(* %s %s)", x, y), T)
	case token.QUO:
		if xs == "Real" {
			return fmt.Sprintf("(/ %s %s)", x, y)
		}
		fc.needDiv()
		fr.safetyObl(R, "div", in, fmt.Sprintf("(not (= %s 0))", y))
		return fc.wrap(fmt.Sprintf("(godiv %s %s)", x, y), T)
	case token.REM:
		fc.needDiv()
		fr.safetyObl(R, "div", in, fmt.Sprintf("(not (= %s 0))", y))
		return fmt.Sprintf("(gorem %s %s)", x, y)
	case token.EQL, token.NEQ:
		var eq string
		if _, ok := in.X.Type().Underlying().(*types.Slice); ok {
			// comparison with nil only
			s := fc.P.SortOf(in.X.Type())
			other := x
			if c, ok := in.X.(*ssa.Const); ok && c.Value == nil {
				other = y
			}
			eq = fmt.Sprintf("(isnil_%s %s)", s, other)
		} else {
			eq = fmt.Sprintf("(= %s %s)", x, y)
		}
		if in.Op == token.NEQ {
			return "(not " + eq + ")"
		}
		return eq
	case token.LSS, token.GTR, token.LEQ, token.GEQ:
		op := map[token.Token]string{token.LSS: "<", token.GTR: ">", token.LEQ: "<=", token.GEQ: ">="}[in.Op]
		if xs == "String" {
			switch in.Op {
			case token.LSS:
				return fmt.Sprintf("(str.< %s %s)", x, y)
			case token.LEQ:
				return fmt.Sprintf("(str.<= %s %s)", x, y)
			case token.GTR:
				return fmt.Sprintf("(str.< %s %s)", y, x)
			default:
				return fmt.Sprintf("(str.<= %s %s)", y, x)
			}
		}
		return fmt.Sprintf("(%s %s %s)", op, x, y)
	case token.AND, token.OR, token.XOR, token.SHL, token.SHR, token.AND_NOT:
		if xs == "Bool" {
			switch in.Op {
			case token.AND:
				return fmt.Sprintf("(and %s %s)", x, y)
			case token.OR:
				return fmt.Sprintf("(or %s %s)", x, y)
			}
		}
		if c, ok := in.Y.(*ssa.Const); ok && (in.Op == token.SHL || in.Op == token.SHR) {
			if i, ok := constantInt(c); ok && i >= 0 && i < 62 {
				if in.Op == token.SHL {
					return fc.wrap(fmt.Sprintf("(* %s %d)", x, int64(1)<<uint(i)), T)
				}
				return fmt.Sprintf("(div %s %d)", x, int64(1)<<uint(i))
			}
		}
		fc.abstract("bitwise operator %s treated as an uninterpreted function", in.Op)
		name := "bitop_" + mangle(in.Op.String())
		name = map[token.Token]string{token.AND: "bitop_and", token.OR: "bitop_or", token.XOR: "bitop_xor", token.SHL: "bitop_shl", token.SHR: "bitop_shr", token.AND_NOT: "bitop_andnot"}[in.Op]
		fc.P.Declare(name, fmt.Sprintf("(declare-fun %s (Int Int) Int)", name))
		return fmt.Sprintf("(%s %s %s)", name, x, y)
	}
	fc.errf("binop %s", in.Op)
	return "0"
}

func constantInt(c *ssa.Const) (int64, bool) {
	if c.Value == nil {
		return 0, false
	}
	return c.Int64(), true
}

func (fr *frame) convert(in *ssa.Convert) string {
	fc := fr.fc
	x := fr.val(in.X)
	from, to := fc.P.SortOf(in.X.Type()), fc.P.SortOf(in.Type())
	switch {
	case from == "Int" && to == "Int":
		bits, signed, ok := intInfo(in.Type())
		if ok && bits == 64 && !signed {
			if _, fs, _ := intInfo(in.X.Type()); fs {
				fc.P.Declare("wrap_u64", "(define-fun wrap_u64 ((x Int)) Int (mod x 18446744073709551616))")
				return fmt.Sprintf("(wrap_u64 %s)", x)
			}
			return x
		}
		if ok && bits == 64 && signed {
			return x // uint64 -> int64 overflow assumed away
		}
		return fc.wrap(x, in.Type())
	case from == "Int" && to == "Real":
		return fmt.Sprintf("(to_real %s)", x)
	case from == "Real" && to == "Int":
		fc.P.Declare("trunc", "(define-fun trunc ((x Real)) Int (ite (>= x 0.0) (to_int x) (- (to_int (- x)))))")
		return fc.wrap(fmt.Sprintf("(trunc %s)", x), in.Type())
	case from == "Real" && to == "Real":
		return x // float32 <-> float64 rounding not modelled
	case from == "String" && to == "String":
		return x
	case to == "String" && from == "Int":
		fc.P.Declare("str_of_rune", "(declare-fun str_of_rune (Int) String)")
		return fmt.Sprintf("(str_of_rune %s)", x)
	case to == "String" && strings.HasPrefix(from, "Seq_"):
		fc.P.Declare("str_of_"+from, fmt.Sprintf("(declare-fun str_of_%s (%s) String)", from, from))
		fc.P.Declare("bytes_of_"+from, fmt.Sprintf("(declare-fun bytes_of_%s (String) %s)", from, from))
		return fmt.Sprintf("(str_of_%s %s)", from, x)
	case from == "String" && strings.HasPrefix(to, "Seq_"):
		fc.P.Declare("str_of_"+to, fmt.Sprintf("(declare-fun str_of_%s (%s) String)", to, to))
		fc.P.Declare("bytes_of_"+to, fmt.Sprintf("(declare-fun bytes_of_%s (String) %s)", to, to))
		fc.P.Declare("bytes_ax_"+to, fmt.Sprintf("(assert (forall ((s String)) (! (and (= (len_%s (bytes_of_%s s)) (str.len s)) (= (str_of_%s (bytes_of_%s s)) s)) :pattern ((bytes_of_%s s)))))", to, to, to, to, to))
		return fmt.Sprintf("(bytes_of_%s %s)", to, x)
	}
	if from == to {
		return x
	}
	fc.errf("convert %s -> %s", in.X.Type(), in.Type())
	return x
}

func (fr *frame) sliceOp(in *ssa.Slice, st *State, R string) {
	fc := fr.fc
	P := fc.P
	lo := "0"
	if in.Low != nil {
		lo = fr.val(in.Low)
	}
	if a, ok := fr.addrs[in.X]; ok { // slice of (pointer to) array
		t, T := fc.load(st, a)
		s := P.SortOf(T)
		if in.Low == nil && in.High == nil {
			fr.define(in, t)
			return
		}
		hi := fmt.Sprintf("(len_%s %s)", s, t)
		if in.High != nil {
			hi = fr.val(in.High)
		}
		fr.define(in, fmt.Sprintf("(drop_%s (take_%s %s %s) %s)", s, s, t, hi, lo))
		return
	}
	x := fr.val(in.X)
	switch in.X.Type().Underlying().(type) {
	case *types.Basic:
		hi := fmt.Sprintf("(str.len %s)", x)
		if in.High != nil {
			hi = fr.val(in.High)
		}
		fr.safetyObl(R, "slice", in, fmt.Sprintf("(and (<= 0 %s) (<= %s %s) (<= %s (str.len %s)))", lo, lo, hi, hi, x))
		fr.define(in, fmt.Sprintf("(str.substr %s %s (- %s %s))", x, lo, hi, lo))
	case *types.Slice:
		s := P.SortOf(in.X.Type())
		hi := fmt.Sprintf("(len_%s %s)", s, x)
		if in.High != nil {
			hi = fr.val(in.High)
		}
		// NOTE: bounds are checked against len, not cap (capacity is not modelled)
		fr.safetyObl(R, "slice", in, fmt.Sprintf("(and (<= 0 %s) (<= %s %s) (<= %s (len_%s %s)))", lo, lo, hi, hi, s, x))
		if in.Low == nil && in.High == nil {
			fr.define(in, x)
		} else if in.Low == nil {
			fr.define(in, fmt.Sprintf("(take_%s %s %s)", s, x, hi))
		} else if in.High == nil {
			fr.define(in, fmt.Sprintf("(drop_%s %s %s)", s, x, lo))
		} else {
			fr.define(in, fmt.Sprintf("(drop_%s (take_%s %s %s) %s)", s, s, x, hi, lo))
		}
	case *types.Pointer:
		// pointer to array held as a value
		a := fr.addrOf(in.X, st, R)
		t, T := fc.load(st, a)
		_ = T
		fr.define(in, t)
	default:
		fc.errf("slice of %s", in.X.Type())
		fr.declareVal(in)
	}
}

func (fr *frame) lookupOp(in *ssa.Lookup, st *State, R string) {
	fc := fr.fc
	P := fc.P
	mt, ok := in.X.Type().Underlying().(*types.Map)
	if !ok {
		// string index
		fr.define(in, fmt.Sprintf("(str.to_code (str.at %s %s))", fr.val(in.X), fr.val(in.Index)))
		return
	}
	mv, md, _, _ := fc.mapComps(mt)
	m, k := fr.val(in.X), fr.val(in.Index)
	dom := fmt.Sprintf("(and (not (= %s 0)) (select (select %s %s) %s))", m, fc.lookup(st, md), m, k)
	val := fmt.Sprintf("(ite %s (select (select %s %s) %s) %s)", dom, fc.lookup(st, mv), m, k, P.ZeroOf(mt.Elem()))
	if in.CommaOk {
		n := fr.declareVal(in)
		fc.declare(n+"_r0", P.SortOf(mt.Elem()))
		fc.declare(n+"_r1", "Bool")
		fc.fact("", "(= %s_r0 %s)", n, val)
		fc.fact("", "(= %s_r1 %s)", n, dom)
		fr.loadedAssume(n+"_r0", mt.Elem(), st)
		return
	}
	n := fr.define(in, val)
	fr.loadedAssume(n, mt.Elem(), st)
}

func (fr *frame) typeAssert(in *ssa.TypeAssert, st *State, R string) {
	fc := fr.fc
	P := fc.P
	x := fr.val(in.X)
	var ok, val string
	if iface, isIface := in.AssertedType.Underlying().(*types.Interface); isIface {
		name := "impl_" + mangle(shortTypeString(in.AssertedType))
		P.DeclareImpl(name, iface)
		ok = fmt.Sprintf("(and (not (= %s 0)) (%s (tagof %s)))", x, name, x)
		val = x
	} else {
		k := P.Box(in.AssertedType)
		ok = fmt.Sprintf("(= (tagof %s) tag_%s)", x, k)
		val = fmt.Sprintf("(unbox_%s %s)", k, x)
	}
	if in.CommaOk {
		n := fr.declareVal(in)
		fc.declare(n+"_r0", P.SortOf(in.AssertedType))
		fc.declare(n+"_r1", "Bool")
		fc.fact("", "(= %s_r1 %s)", n, ok)
		fc.fact("", "(=> %s_r1 (= %s_r0 %s))", n, n, val)
		fc.fact("", "(=> (not %s_r1) (= %s_r0 %s))", n, n, P.ZeroOf(in.AssertedType))
		fr.loadedAssume(n+"_r0", in.AssertedType, st)
		return
	}
	fr.safetyObl(R, "assert", in, ok)
	n := fr.define(in, val)
	fr.loadedAssume(n, in.AssertedType, st)
}

// ---------- map range: ghost key sequence ----------

type rangeInfo struct {
	keys string // Seq of keys
	ks   string
	mt   *types.Map
	m    string
}

var rangeInfos = map[*ssa.Range]*rangeInfo{}

func (fr *frame) rangeInit(in *ssa.Range, st *State) {
	fc := fr.fc
	P := fc.P
	mt, ok := in.X.Type().Underlying().(*types.Map)
	if !ok {
		// range over string
		fc.errf("range over string is outside the supported subset")
		fr.declareVal(in)
		return
	}
	_, md, ks, _ := fc.mapComps(mt)
	s := P.SeqSort(ks)
	keys := fc.freshConst(fr.prefix+"rangekeys", s)
	m := fr.val(in.X)
	dom := fmt.Sprintf("(select %s %s)", fc.lookup(st, md), m)
	fc.fact("", "(forall ((k %s)) (! (= (has_%s %s k) (and (not (= %s 0)) (select %s k))) :pattern ((has_%s %s k)) :pattern ((select %s k))))", ks, s, keys, m, dom, s, keys, dom)
	fc.fact("", "(forall ((i Int) (j Int)) (! (=> (and (<= 0 i) (< i j) (< j (len_%s %s))) (not (= (at_%s %s i) (at_%s %s j)))) :pattern ((at_%s %s i) (at_%s %s j))))", s, keys, s, keys, s, keys, s, keys, s, keys)
	n := fr.declareVal(in)
	_ = n
	rangeInfos[in] = &rangeInfo{keys: keys, ks: ks, mt: mt, m: m}
	// (re)start the iteration: position 0
	posKey := "L:" + fr.prefix + "rangepos_" + in.Name()
	fc.compDecl(posKey, "Int")
	st.comp[posKey] = "0"
	fr.fc.fact("", "(= %s 0)", n) // iterator position: number of Next calls completed
}

func (fr *frame) rangeNext(in *ssa.Next, st *State, R string) {
	fc := fr.fc
	P := fc.P
	n := fr.declareVal(in)
	tup := in.Type().(*types.Tuple)
	for i := 0; i < tup.Len(); i++ {
		fc.declare(fmt.Sprintf("%s_r%d", n, i), P.SortOf(tup.At(i).Type()))
	}
	rng, ok := in.Iter.(*ssa.Range)
	if !ok || rangeInfos[rng] == nil {
		fc.abstract("range iteration with unknown iterator: havoc")
		return
	}
	ri := rangeInfos[rng]
	// the position is the header's hidden counter: we model it with a ghost per-loop counter "idx" = number of completed Next calls.
	// go/ssa has no phi for it, so we keep it as a loop-carried ghost component.
	key := "L:" + fr.prefix + "rangepos_" + rng.Name()
	fc.compDecl(key, "Int")
	pos, okp := st.comp[key]
	if !okp {
		pos = "0"
	}
	s := P.SeqSort(ri.ks)
	mv, _, _, _ := fc.mapComps(ri.mt)
	fc.fact("", "(= %s_r0 (< %s (len_%s %s)))", n, pos, s, ri.keys)
	// (for _, v := range m leaves the key component untyped: the current key is then a fresh constant of the key sort)
	keyTerm := n + "_r1"
	if tup.Len() < 2 || P.SortOf(tup.At(1).Type()) != ri.ks {
		keyTerm = fc.freshConst(n+"_key", ri.ks)
	}
	fc.fact("", "(=> %s_r0 (= %s (at_%s %s %s)))", n, keyTerm, s, ri.keys, pos)
	// value as of now (deleting other keys during iteration is not modelled)
	if tup.Len() > 2 && P.SortOf(tup.At(2).Type()) == P.SortOf(ri.mt.Elem()) {
		// (for k := range m leaves the value component untyped)
		fc.fact("", "(=> %s_r0 (= %s_r2 (select (select %s %s) %s)))", n, n, fc.lookup(st, mv), ri.m, keyTerm)
		fr.loadedAssume(n+"_r2", ri.mt.Elem(), st)
	}
	st.comp[key] = fmt.Sprintf("(ite %s_r0 (+ %s 1) %s)", n, pos, pos)
}

// isArrayAlloc: backing arrays of slice literals / varargs. Slices are values in this model, so the array is a local.
func isArrayAlloc(al *ssa.Alloc) bool {
	_, ok := al.Type().(*types.Pointer).Elem().Underlying().(*types.Array)
	return ok
}
