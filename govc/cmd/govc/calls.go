package main

// Calls: builtins, intrinsics (modelled library functions), contract calls, inlining, closures, invariants.

import (
	"go/token"
	"fmt"
	"go/types"
	"sort"
	"strings"

	"golang.org/x/tools/go/ssa"
)

const (
	callUnknown = iota
	callIntrinsic
	callContract
	callInline
	callPure
	callDynamic
)

func intrinsicName(cc *ssa.CallCommon) string {
	if cc.IsInvoke() {
		return ""
	}
	if f := cc.StaticCallee(); f != nil {
		if f.Pkg != nil {
			if recv := f.Signature.Recv(); recv != nil {
				return strings.TrimPrefix(f.String(), "")
			}
			return f.Pkg.Pkg.Path() + "." + f.Name()
		}
		return f.String()
	}
	return ""
}

var intrinsics = map[string]bool{
	"strings.HasPrefix": true, "strings.HasSuffix": true, "strings.Contains": true, "strings.TrimPrefix": true, "strings.TrimSuffix": true,
	"strings.ToLower": true, "strings.ToUpper": true, "strings.TrimRight": true, "strings.TrimLeft": true, "strings.TrimSpace": true,
	"strings.Join": true, "strings.Split": true, "strings.Index": true, "strings.EqualFold": true,
	"(*sync.Mutex).Lock": true, "(*sync.Mutex).Unlock": true, "(*sync.RWMutex).Lock": true, "(*sync.RWMutex).Unlock": true,
	"(*sync.RWMutex).RLock": true, "(*sync.RWMutex).RUnlock": true, "(*sync.Cond).Broadcast": true, "(*sync.Cond).Signal": true, "(*sync.Cond).Wait": true, "(*sync.WaitGroup).Add": true, "(*sync.WaitGroup).Done": true, "(*sync.WaitGroup).Wait": true,
	"sync/atomic.LoadInt32": true, "sync/atomic.LoadInt64": true, "sync/atomic.LoadUint32": true, "sync/atomic.LoadUint64": true,
	"sync/atomic.StoreInt32": true, "sync/atomic.StoreInt64": true, "sync/atomic.StoreUint32": true, "sync/atomic.StoreUint64": true,
	"sync/atomic.AddInt32": true, "sync/atomic.AddInt64": true, "sync/atomic.AddUint32": true, "sync/atomic.AddUint64": true,
	"sync/atomic.SwapInt32": true, "sync/atomic.SwapInt64": true, "sync/atomic.SwapUint32": true, "sync/atomic.SwapUint64": true,
	"sync/atomic.CompareAndSwapInt32": true, "sync/atomic.CompareAndSwapInt64": true, "sync/atomic.CompareAndSwapUint32": true, "sync/atomic.CompareAndSwapUint64": true,
	"(*sync/atomic.Value).Load": true, "(*sync/atomic.Value).Store": true,
	"(*sync.Map).Load": true, "(*sync.Map).Store": true, "(*sync.Map).Delete": true, "(*sync.Map).LoadOrStore": true, "(*sync.Map).LoadAndDelete": true,
	"errors.New": true, "fmt.Errorf": true, "fmt.Sprintf": true, "fmt.Sprint": true,
	"math.Sqrt": true, "math.Ceil": true, "math.Floor": true, "math.Max": true, "math.Min": true, "math.Abs": true, "math.Round": true, "math.Trunc": true,
}

var pureAllow = []string{
	"k8s.io/klog", "fmt", "errors", "github.com/pkg/errors", "strings", "strconv", "time", "math", "unicode", "path",
	"k8s.io/apimachinery/pkg/api/errors", "k8s.io/apimachinery/pkg/util/validation", "k8s.io/apimachinery/pkg/util/errors",
	"github.com/prometheus/client_golang", "k8s.io/component-base/metrics", "math/rand", "net/url", "net", "os", "runtime",
	"k8s.io/apimachinery/pkg/util/runtime", "k8s.io/apimachinery/pkg/util/validation/field", "k8s.io/apimachinery/pkg/labels",
	"github.com/kubewharf/kubegateway/pkg/gateway/metrics", "github.com/kubewharf/kubegateway/pkg/ratelimiter/metrics",
	"github.com/kubewharf/kubegateway/pkg/util/tracing", "github.com/gobeam/stringy", "encoding/json", "bytes", "unicode/utf8",
	"k8s.io/apimachinery/pkg/util/sets", "k8s.io/kubernetes/pkg/apis/core/validation", "k8s.io/apimachinery/pkg/api/validation", "k8s.io/client-go/util/cert", "k8s.io/client-go/util/keyutil", "k8s.io/apimachinery/pkg/runtime/schema", "k8s.io/apimachinery/pkg/types", "crypto/x509", "encoding/pem", "crypto/tls", "hash/fnv", "regexp",
	"k8s.io/apiserver/pkg/endpoints/request", "k8s.io/apiserver/pkg/authentication/user", "k8s.io/apiserver/pkg/authorization/authorizer", "k8s.io/apiserver/pkg/authentication/serviceaccount",
	"context", "golang.org/x/net/http/httpguts", "github.com/kubewharf/kubegateway/pkg/util/reverseproxy/ascii", "k8s.io/apimachinery/pkg/api/equality", "k8s.io/apimachinery/third_party/forked/golang/reflect", "k8s.io/apimachinery/pkg/conversion",
}

func isPureAllowed(path string) bool {
	if i := strings.Index(path, "/vendor/"); i >= 0 {
		path = path[i+8:]
	}
	for _, p := range pureAllow {
		if path == p || strings.HasPrefix(path, p+"/") {
			return true
		}
	}
	return false
}

func calleePkgPath(fn *ssa.Function) string {
	if fn.Pkg != nil {
		return fn.Pkg.Pkg.Path()
	}
	if fn.Object() != nil && fn.Object().Pkg() != nil {
		return fn.Object().Pkg().Path()
	}
	if o := fn.Origin(); o != nil && o.Pkg != nil {
		return o.Pkg.Pkg.Path()
	}
	return ""
}

func (fr *frame) classifyCall(cc *ssa.CallCommon) (int, *FuncContract, *ssa.Function) {
	fc := fr.fc
	if cc.IsInvoke() {
		if c := fc.eng.IfaceContract(cc.Value.Type(), cc.Method); c != nil {
			return callContract, c, nil
		}
		if cc.Method.Pkg() != nil && isPureAllowed(cc.Method.Pkg().Path()) {
			return callPure, nil, nil
		}
		if cc.Value.Type().String() == "error" {
			return callPure, nil, nil
		}
		return callUnknown, nil, nil
	}
	callee := cc.StaticCallee()
	if callee == nil {
		return callDynamic, nil, nil
	}
	if c := fc.eng.ContractFor(callee); c != nil {
		if c.Inline && !c.Trusted && callee.Blocks != nil && fc.depth < 3 && inlinable(callee) {
			// `inline`: the contract is proved for the function itself and its preconditions are obligations at every
			// call site, but callers see the body (exact) instead of the postconditions
			return callInline, c, callee
		}
		return callContract, c, callee
	}
	if intrinsics[intrinsicName(cc)] {
		return callIntrinsic, nil, callee
	}
	path := calleePkgPath(callee)
	if callee.Blocks != nil && (strings.HasPrefix(path, mainModule) || strings.HasPrefix(path, stagingModule)) && fc.depth < 3 && inlinable(callee) {
		return callInline, nil, callee
	}
	if isPureAllowed(path) {
		return callPure, nil, callee
	}
	return callUnknown, nil, callee
}

func inlinable(fn *ssa.Function) bool {
	if len(fn.Blocks) > 24 {
		return false
	}
	n := 0
	// loops: DFS back edges
	state := map[*ssa.BasicBlock]int{}
	cyclic := false
	var dfs func(b *ssa.BasicBlock)
	dfs = func(b *ssa.BasicBlock) {
		state[b] = 1
		for _, s := range b.Succs {
			if state[s] == 1 {
				cyclic = true
			} else if state[s] == 0 {
				dfs(s)
			}
		}
		state[b] = 2
	}
	dfs(fn.Blocks[0])
	if cyclic {
		return false
	}
	for _, b := range fn.Blocks {
		for _, in := range b.Instrs {
			n++
			switch in.(type) {
			case *ssa.Go, *ssa.Select, *ssa.Range:
				return false
			}
		}
	}
	return n <= 120
}

func (fr *frame) call(v *ssa.Call, cc *ssa.CallCommon, st *State, R string, b *ssa.BasicBlock) {
	fc := fr.fc
	P := fc.P
	var resName string
	declareResults := func() string {
		if v == nil {
			return ""
		}
		n := fr.declareVal(v)
		if tup, ok := v.Type().(*types.Tuple); ok {
			for i := 0; i < tup.Len(); i++ {
				fc.declare(fmt.Sprintf("%s_r%d", n, i), P.SortOf(tup.At(i).Type()))
			}
		}
		return n
	}
	if bi, ok := cc.Value.(*ssa.Builtin); ok {
		fr.builtin(v, bi, cc, st, R)
		return
	}
	if fe := foreachHelperOf(cc); fe != nil {
		fnArg := cc.Args[fe.fnArg]
		for {
			if ct, ok := fnArg.(*ssa.ChangeType); ok {
				fnArg = ct.X
				continue
			}
			break
		}
		if mc, ok := fr.closures[fnArg]; ok {
			if cctr := fc.eng.ContractFor(mc.Fn.(*ssa.Function)); cctr != nil {
				fr.foreachCall(fe, cctr, mc, cc, st, R)
				return
			}
		}
	}
	kind, ctr, callee := fr.classifyCall(cc)
	if callee != nil && len(cc.Args) >= 2 {
		full := calleePkgPath(callee) + "." + callee.Name()
		if ai, ok := retryHelpers[full]; ok && len(cc.Args) > ai {
			fnArg := cc.Args[ai]
			for {
				if ct, ok := fnArg.(*ssa.ChangeType); ok {
					fnArg = ct.X
					continue
				}
				break
			}
			if mc, ok := fr.closures[fnArg]; ok {
				if cctr := fc.eng.ContractFor(mc.Fn.(*ssa.Function)); cctr != nil {
					resName = declareResults()
					fr.retryCall(v, resName, full, cctr, mc, st, R)
					return
				}
			}
		}
	}
	switch kind {
	case callIntrinsic:
		resName = declareResults()
		fr.intrinsic(v, resName, intrinsicName(cc), cc, st, R)
	case callContract:
		resName = declareResults()
		fr.contractCall(v, resName, ctr, callee, cc, st, R)
	case callInline:
		resName = declareResults()
		if ctr != nil && len(ctr.Requires) > 0 {
			fr.requiresAtCall(v, ctr, callee, cc, st, R)
		}
		fr.inlineCall(v, resName, callee, cc, st, R)
	case callPure:
		resName = declareResults()
		fr.resultAssume(v, resName, st)
		name := ""
		if callee != nil {
			name = callee.String()
		} else {
			name = cc.Method.FullName()
		}
		fc.abstract("effect-free by allow-list: %s", pkgOfName(name))
	case callDynamic:
		resName = declareResults()
		if n, ok := cc.Value.Type().(*types.Named); ok && n.Obj().Pkg() != nil && n.Obj().Pkg().Path() == "context" && n.Obj().Name() == "CancelFunc" {
			// calling a context.CancelFunc only cancels that context: ghost cancelled[fn] = true, no heap effect
			fc.compDecl("G:cancelled", "(Array Int Bool)")
			st.comp["G:cancelled"] = fmt.Sprintf("(store %s %s true)", fc.lookup(st, "G:cancelled"), fr.val(cc.Value))
			return
		}
		if fc.pureMode {
			// pure context: function values are applied as mathematical functions
			var as, ss []string
			for _, a := range cc.Args {
				as = append(as, fr.val(a))
				ss = append(ss, P.SortOf(a.Type()))
			}
			if v != nil {
				if _, isTup := v.Type().(*types.Tuple); !isTup {
					name := fc.appFun(ss, P.SortOf(v.Type()))
					fc.fact("", "(= %s (%s %s %s))", resName, name, fr.val(cc.Value), strings.Join(as, " "))
					return
				}
			}
		}
		// a function-typed struct field under contract: extern "pkg".(T).field_F(recv, args...)
		if ld, ok := cc.Value.(*ssa.UnOp); ok && ld.Op == token.MUL {
			if fa, ok := ld.X.(*ssa.FieldAddr); ok {
				if pt, ok := fa.X.Type().Underlying().(*types.Pointer); ok {
					if n, ok := pt.Elem().(*types.Named); ok && n.Obj().Pkg() != nil {
						if stt, ok := n.Underlying().(*types.Struct); ok {
							key := n.Obj().Pkg().Path() + "::(" + n.Obj().Name() + ").field_" + stt.Field(fa.Field).Name()
							if c, ok := fc.eng.Spec.Funcs[key]; ok {
								argTerms := []string{fr.val(fa.X)}
								argTypes := []types.Type{fa.X.Type()}
								for _, a := range cc.Args {
									argTerms = append(argTerms, fr.val(a))
									argTypes = append(argTypes, a.Type())
								}
								var resT types.Type
								if v != nil {
									resT = v.Type()
								}
								fr.applyContract(c, nil, cc, argTerms, argTypes, resName, resT, st, R, v)
								return
							}
						}
					}
				}
			}
		}
		// a value of a named function type under contract: extern "pkg".(T).call(f, args...)
		if n, ok := cc.Value.Type().(*types.Named); ok && n.Obj().Pkg() != nil {
			key := n.Obj().Pkg().Path() + "::(" + n.Obj().Name() + ").call"
			if c, ok := fc.eng.Spec.Funcs[key]; ok {
				argTerms := []string{fr.val(cc.Value)}
				argTypes := []types.Type{cc.Value.Type()}
				for _, a := range cc.Args {
					argTerms = append(argTerms, fr.val(a))
					argTypes = append(argTypes, a.Type())
				}
				var resT types.Type
				if v != nil {
					resT = v.Type()
				}
				fr.applyContract(c, nil, cc, argTerms, argTypes, resName, resT, st, R, v)
				return
			}
		}
		// known closure created in this frame with a contract?
		if mc, ok := fr.closures[cc.Value]; ok {
			if c := fc.eng.ContractFor(mc.Fn.(*ssa.Function)); c != nil {
				fr.contractCallClosure(v, resName, c, mc, cc, st, R)
				return
			}
		}
		fr.unknownCall(v, resName, cc, st)
	default:
		resName = declareResults()
		fr.unknownCall(v, resName, cc, st)
		if callee != nil {
			fc.abstract("unknown effects (heap havoc): %s", callee.String())
		} else if cc.IsInvoke() {
			fc.abstract("unknown effects (heap havoc): %s", cc.Method.FullName())
		}
	}
}

func pkgOfName(s string) string {
	s = strings.TrimPrefix(s, "(")
	s = strings.TrimPrefix(s, "*")
	if i := strings.LastIndex(s, "/"); i >= 0 {
		rest := s[i+1:]
		if j := strings.Index(rest, "."); j >= 0 {
			return s[:i+1+j]
		}
	}
	if j := strings.Index(s, "."); j >= 0 {
		return s[:j]
	}
	return s
}

func (fc *FnCtx) syncMapComps() (string, string) {
	if _, ok := fc.compSort["SM:V"]; !ok {
		fc.compDecl("SM:V", "(Array Int (Array Int Int))")
		fc.compDecl("SM:D", "(Array Int (Array Int Bool))")
		// heap well-formedness at entry: every reference stored in a sync.Map was allocated before the function started
		if fc.entry != nil {
			fc.P.needTagof()
			v0 := fc.lookup(fc.entry, "SM:V")
			fc.fact("", "(forall ((m Int) (k Int)) (! (< (ptrin (select (select %s m) k)) %s) :pattern ((select (select %s m) k))))", v0, fc.entry.comp["TOP"], v0)
		}
	}
	return "SM:V", "SM:D"
}

func isSyncMap(T types.Type) bool {
	n, ok := T.(*types.Named)
	return ok && n.Obj().Pkg() != nil && n.Obj().Pkg().Path() == "sync" && n.Obj().Name() == "Map"
}

// resetSyncMaps: a zero sync.Map value is stored at address `at` (struct type T may contain sync.Map fields).
func (fc *FnCtx) resetSyncMaps(st *State, T types.Type, at string) {
	if isSyncMap(T) {
		_, smd := fc.syncMapComps()
		st.comp[smd] = fmt.Sprintf("(store %s %s ((as const (Array Int Bool)) false))", fc.lookup(st, smd), at)
		return
	}
	if s, ok := T.Underlying().(*types.Struct); ok {
		if n, isN := T.(*types.Named); isN && n.Obj().Pkg() != nil && (n.Obj().Pkg().Path() == "sync" || n.Obj().Pkg().Path() == "sync/atomic") {
			return
		}
		for i := 0; i < s.NumFields(); i++ {
			ft := s.Field(i).Type()
			if isSyncMap(ft) {
				fc.resetSyncMaps(st, ft, fc.fieldAddrTerm(fc.P.SortOf(T), i, at))
			} else if _, isS := ft.Underlying().(*types.Struct); isS && containsSyncMap(ft, 0) {
				fc.resetSyncMaps(st, ft, fc.fieldAddrTerm(fc.P.SortOf(T), i, at))
			}
		}
	}
}

func containsSyncMap(T types.Type, depth int) bool {
	if isSyncMap(T) {
		return true
	}
	if depth > 3 {
		return false
	}
	if s, ok := T.Underlying().(*types.Struct); ok {
		for i := 0; i < s.NumFields(); i++ {
			ft := s.Field(i).Type()
			if _, isS := ft.Underlying().(*types.Struct); isS && containsSyncMap(ft, depth+1) {
				return true
			}
		}
	}
	return false
}

func (fr *frame) resultAssume(v *ssa.Call, resName string, st *State) {
	if v == nil {
		return
	}
	if tup, ok := v.Type().(*types.Tuple); ok {
		for i := 0; i < tup.Len(); i++ {
			fr.loadedAssume(fmt.Sprintf("%s_r%d", resName, i), tup.At(i).Type(), st)
		}
		return
	}
	fr.loadedAssume(resName, v.Type(), st)
}

// havocAllKeepFresh: unknown effects cannot reach objects allocated in this frame that have not escaped yet.
func (fr *frame) havocAllKeepFresh(st *State) {
	fc := fr.fc
	type keep struct{ key, ref, val string }
	var keeps []keep
	for al, ok := range fr.unescaped {
		if !ok {
			continue
		}
		a := fr.addrs[al]
		if a == nil || a.kind != 2 {
			continue
		}
		if s, isS := a.T.Underlying().(*types.Struct); isS {
			for i := 0; i < s.NumFields(); i++ {
				k, _ := fc.fieldComp(a.T, i)
				keeps = append(keeps, keep{k, a.ref, fmt.Sprintf("(select %s %s)", fc.lookup(st, k), a.ref)})
			}
		} else {
			k := fc.cellComp(a.T)
			keeps = append(keeps, keep{k, a.ref, fmt.Sprintf("(select %s %s)", fc.lookup(st, k), a.ref)})
		}
	}
	fc.havocAll(st)
	sort.Slice(keeps, func(i, j int) bool { return keeps[i].key+keeps[i].ref < keeps[j].key+keeps[j].ref })
	for _, k := range keeps {
		st.comp[k.key] = fmt.Sprintf("(store %s %s %s)", fc.lookup(st, k.key), k.ref, k.val)
	}
}

func (fr *frame) unknownCall(v *ssa.Call, resName string, cc *ssa.CallCommon, st *State) {
	fc := fr.fc
	fr.havocAllKeepFresh(st)
	// locals passed by address are havocked too
	for _, a := range cc.Args {
		if ad, ok := fr.addrs[a]; ok && ad.kind == 1 {
			st.comp[ad.key] = fc.freshConst("hv_"+ad.key, fc.compSort[ad.key])
		}
	}
	fr.resultAssume(v, resName, st)
}

func (fr *frame) builtin(v *ssa.Call, bi *ssa.Builtin, cc *ssa.CallCommon, st *State, R string) {
	fc := fr.fc
	P := fc.P
	switch bi.Name() {
	case "len", "cap":
		x := cc.Args[0]
		switch u := x.Type().Underlying().(type) {
		case *types.Basic:
			fr.define(v, fmt.Sprintf("(str.len %s)", fr.val(x)))
		case *types.Slice:
			if bi.Name() == "cap" {
				n := fr.declareVal(v)
				fc.fact("", "(>= %s (len_%s %s))", n, P.SortOf(x.Type()), fr.val(x))
				return
			}
			fr.define(v, fmt.Sprintf("(len_%s %s)", P.SortOf(x.Type()), fr.val(x)))
		case *types.Array:
			fr.define(v, fmt.Sprint(u.Len()))
		case *types.Pointer:
			if arr, ok := u.Elem().Underlying().(*types.Array); ok {
				fr.define(v, fmt.Sprint(arr.Len()))
			} else {
				fr.declareVal(v)
			}
		case *types.Map:
			env := &Env{fc: fc, names: map[string]TV{"m": {fr.val(x), "Int", x.Type()}}, cur: st}
			tv := env.call(&ECall{Fun: "len", Args: []Expr{&EIdent{"m"}}})
			fr.define(v, tv.T)
		default:
			n := fr.declareVal(v)
			fc.fact("", "(>= %s 0)", n)
		}
	case "append":
		s := P.SortOf(cc.Args[0].Type())
		if len(cc.Args) == 1 {
			fr.define(v, fr.val(cc.Args[0]))
			return
		}
		y := fr.val(cc.Args[1])
		if P.SortOf(cc.Args[1].Type()) == "String" {
			P.Declare("bytes_of_"+s, fmt.Sprintf("(declare-fun bytes_of_%s (String) %s)", s, s))
			y = fmt.Sprintf("(bytes_of_%s %s)", s, y)
		}
		n := fr.define(v, fmt.Sprintf("(cat_%s %s %s)", s, fr.val(cc.Args[0]), y))
		_ = n
	case "copy":
		fc.abstract("copy(): destination contents are not modelled")
		fc.havocAll(st)
		n := fr.declareVal(v)
		fc.fact("", "(>= %s 0)", n)
	case "delete":
		mt := cc.Args[0].Type().Underlying().(*types.Map)
		_, md, _, _ := fc.mapComps(mt)
		m, k := fr.val(cc.Args[0]), fr.val(cc.Args[1])
		st.comp[md] = fmt.Sprintf("(ite (= %s 0) %s (store %s %s (store (select %s %s) %s false)))", m, fc.lookup(st, md), fc.lookup(st, md), m, fc.lookup(st, md), m, k)
	case "panic":
		if fc.safety {
			fr.safetyObl(R, "panic", v, "false")
		} else {
			fc.fact("", "(not %s)", R)
		}
	case "print", "println", "recover", "close":
		if v != nil {
			fr.declareVal(v)
		}
	case "min", "max":
		x, y := fr.val(cc.Args[0]), fr.val(cc.Args[1])
		op := map[string]string{"min": "<=", "max": ">="}[bi.Name()]
		fr.define(v, fmt.Sprintf("(ite (%s %s %s) %s %s)", op, x, y, x, y))
	default:
		fc.errf("builtin %s", bi.Name())
		if v != nil {
			fr.declareVal(v)
		}
	}
}

func (fr *frame) intrinsic(v *ssa.Call, res, name string, cc *ssa.CallCommon, st *State, R string) {
	fc := fr.fc
	P := fc.P
	arg := func(i int) string { return fr.val(cc.Args[i]) }
	def := func(t string) { fc.fact("", "(= %s %s)", res, t) }
	switch {
	case name == "strings.HasPrefix":
		def(fmt.Sprintf("(str.prefixof %s %s)", arg(1), arg(0)))
	case name == "strings.HasSuffix":
		def(fmt.Sprintf("(str.suffixof %s %s)", arg(1), arg(0)))
	case name == "strings.Contains":
		def(fmt.Sprintf("(str.contains %s %s)", arg(0), arg(1)))
	case name == "strings.TrimPrefix":
		def(fmt.Sprintf("(ite (str.prefixof %s %s) (str.substr %s (str.len %s) (- (str.len %s) (str.len %s))) %s)", arg(1), arg(0), arg(0), arg(1), arg(0), arg(1), arg(0)))
	case name == "strings.TrimSuffix":
		def(fmt.Sprintf("(ite (str.suffixof %s %s) (str.substr %s 0 (- (str.len %s) (str.len %s))) %s)", arg(1), arg(0), arg(0), arg(0), arg(1), arg(0)))
	case name == "strings.Index":
		def(fmt.Sprintf("(str.indexof %s %s 0)", arg(0), arg(1)))
	case name == "strings.ToLower", name == "strings.ToUpper", name == "strings.TrimSpace":
		f := "sfn_" + mangle(name)
		P.Declare(f, fmt.Sprintf("(declare-fun %s (String) String)\n(assert (forall ((s String)) (! (= (%s (%s s)) (%s s)) :pattern ((%s s)))))", f, f, f, f, f))
		def(fmt.Sprintf("(%s %s)", f, arg(0)))
	case name == "strings.TrimRight", name == "strings.TrimLeft":
		f := "sfn_" + mangle(name)
		P.Declare(f, fmt.Sprintf("(declare-fun %s (String String) String)", f))
		def(fmt.Sprintf("(%s %s %s)", f, arg(0), arg(1)))
	case name == "strings.Join", name == "strings.Split", name == "strings.EqualFold":
		f := "sfn_" + mangle(name)
		P.Declare(f, fmt.Sprintf("(declare-fun %s (%s %s) %s)", f, P.SortOf(cc.Args[0].Type()), P.SortOf(cc.Args[1].Type()), P.SortOf(v.Type())))
		def(fmt.Sprintf("(%s %s %s)", f, arg(0), arg(1)))
	case name == "(*sync/atomic.Value).Load", name == "(*sync/atomic.Value).Store":
		a := fr.addrOf(cc.Args[0], st, R)
		if a == nil {
			fc.errf("atomic.Value op on unknown address")
			return
		}
		na := *a
		na.path = append(append([]pathEl{}, a.path...), pathEl{field: 0})
		if strings.HasSuffix(name, "Load") {
			t, _ := fc.load(st, &na)
			def(t)
		} else {
			fc.store(st, &na, arg(1))
		}
	case strings.HasPrefix(name, "(*sync.Map)."):
		smv, smd := fc.syncMapComps()
		m := arg(0)
		// rely/guarantee pass: before this step other goroutines may have changed the sync.Maps in any way the rely allows
		var rgPre *State
		rgEnv := func(pre, post *State) *Env {
			env := fr.baseEnv(post)
			env.old = pre
			blk := fr.fn.Blocks[0]
			if v != nil {
				blk = v.Block()
			}
			env.lookup = func(nm string, s *State) (TV, bool) {
				if tv, ok := fr.paramLookup(nm, s); ok {
					return tv, true
				}
				return fr.resolveName(nm, blk, false, s, nil)
			}
			return env
		}
		if fc.rgMode && fr.contract != nil && len(fr.contract.Guarantee) > 0 && !fr.inlined {
			before := st.clone()
			st.comp[smv] = fc.freshConst(fr.prefix+"rg_SM_V", fc.compSort[smv])
			st.comp[smd] = fc.freshConst(fr.prefix+"rg_SM_D", fc.compSort[smd])
			env := rgEnv(before, st)
			for _, c := range fr.contract.Rely {
				fc.fact("", "(=> %s %s)", R, env.trAssume(c.E))
			}
			rgPre = st.clone()
		}
		V, D := fc.lookup(st, smv), fc.lookup(st, smd)
		// values already in the map were allocated before this call
		fc.P.needTagof()
		fc.fact("", "(< (ptrin (select (select %s %s) %s)) %s)", V, m, arg(1), st.comp["TOP"])
		switch strings.TrimPrefix(name, "(*sync.Map).") {
		case "Load":
			fc.fact("", "(= %s_r1 (select (select %s %s) %s))", res, D, m, arg(1))
			fc.fact("", "(= %s_r0 (ite %s_r1 (select (select %s %s) %s) 0))", res, res, V, m, arg(1))
		case "Store":
			st.comp[smv] = fmt.Sprintf("(store %s %s (store (select %s %s) %s %s))", V, m, V, m, arg(1), arg(2))
			st.comp[smd] = fmt.Sprintf("(store %s %s (store (select %s %s) %s true))", D, m, D, m, arg(1))
		case "Delete":
			st.comp[smd] = fmt.Sprintf("(store %s %s (store (select %s %s) %s false))", D, m, D, m, arg(1))
		case "LoadOrStore":
			fc.fact("", "(= %s_r1 (select (select %s %s) %s))", res, D, m, arg(1))
			fc.fact("", "(= %s_r0 (ite %s_r1 (select (select %s %s) %s) %s))", res, res, V, m, arg(1), arg(2))
			st.comp[smv] = fmt.Sprintf("(store %s %s (store (select %s %s) %s %s_r0))", V, m, V, m, arg(1), res)
			st.comp[smd] = fmt.Sprintf("(store %s %s (store (select %s %s) %s true))", D, m, D, m, arg(1))
		case "LoadAndDelete":
			fc.fact("", "(= %s_r1 (select (select %s %s) %s))", res, D, m, arg(1))
			fc.fact("", "(= %s_r0 (ite %s_r1 (select (select %s %s) %s) 0))", res, res, V, m, arg(1))
			st.comp[smd] = fmt.Sprintf("(store %s %s (store (select %s %s) %s false))", D, m, D, m, arg(1))
		}
		if rgPre != nil {
			env := rgEnv(rgPre, st)
			site := ""
			if v != nil && v.Pos().IsValid() {
				p := fr.fn.Prog.Fset.Position(v.Pos())
				site = fmt.Sprintf("%s:%d", shortFile(p.Filename), p.Line)
			}
			for _, c := range fr.contract.Guarantee {
				g := env.tr(c.E)
				fc.obls = append(fc.obls, &Obl{Func: fc.key, Kind: "guarantee", Label: c.Label, Site: site, NFacts: len(fc.facts), Path: R, Goal: g.T, Text: c.Text})
			}
		}
	case strings.HasPrefix(name, "(*sync."):
		// locks are no-ops in the sequential model
	case strings.HasPrefix(name, "sync/atomic."):
		a := fr.addrOf(cc.Args[0], st, R)
		if a == nil {
			fc.errf("atomic op on unknown address")
			return
		}
		cur, T := fc.load(st, a)
		op := strings.TrimPrefix(name, "sync/atomic.")
		switch {
		case strings.HasPrefix(op, "Load"):
			def(cur)
			fr.rangeAssume(res, T)
		case strings.HasPrefix(op, "Store"):
			fc.store(st, a, arg(1))
		case strings.HasPrefix(op, "Add"):
			nv := fc.wrap(fmt.Sprintf("(+ %s %s)", cur, arg(1)), T)
			if bits, signed, _ := intInfo(T); bits == 64 && !signed {
				P.Declare("wrap_u64", "(define-fun wrap_u64 ((x Int)) Int (mod x 18446744073709551616))")
				nv = fmt.Sprintf("(wrap_u64 (+ %s %s))", cur, arg(1))
			}
			def(nv)
			fc.store(st, a, res)
		case strings.HasPrefix(op, "Swap"):
			def(cur)
			fr.rangeAssume(res, T)
			fc.store(st, a, arg(1))
		case strings.HasPrefix(op, "CompareAndSwap"):
			def(fmt.Sprintf("(= %s %s)", cur, arg(1)))
			fc.store(st, a, fmt.Sprintf("(ite %s %s %s)", res, arg(2), cur))
		}
	case name == "errors.New", name == "fmt.Errorf":
		fc.fact("", "(not (= %s 0))", res)
	case name == "fmt.Sprintf", name == "fmt.Sprint":
		// result unconstrained
	case name == "math.Sqrt":
		P.Declare("rsqrt", "(declare-fun rsqrt (Real) Real)\n(assert (forall ((x Real)) (! (>= (rsqrt x) 0.0) :pattern ((rsqrt x)))))")
		def(fmt.Sprintf("(rsqrt %s)", arg(0)))
	case name == "math.Ceil":
		// ceil through an integer witness k with k-1 < x <= k (solvers handle this form far better than to_int)
		k := fc.freshConst(fr.prefix+"ceil", "Int")
		fc.fact("", "(and (< (- (to_real %s) 1.0) %s) (<= %s (to_real %s)))", k, arg(0), arg(0), k)
		def(fmt.Sprintf("(to_real %s)", k))
	case name == "math.Floor":
		k := fc.freshConst(fr.prefix+"floor", "Int")
		fc.fact("", "(and (<= (to_real %s) %s) (< %s (+ (to_real %s) 1.0)))", k, arg(0), arg(0), k)
		def(fmt.Sprintf("(to_real %s)", k))
	case name == "math.Trunc":
		P.Declare("trunc", "(define-fun trunc ((x Real)) Int (ite (>= x 0.0) (to_int x) (- (to_int (- x)))))")
		def(fmt.Sprintf("(to_real (trunc %s))", arg(0)))
	case name == "math.Round":
		def(fmt.Sprintf("(ite (>= %s 0.0) (to_real (to_int (+ %s 0.5))) (- (to_real (to_int (+ (- %s) 0.5)))))", arg(0), arg(0), arg(0)))
	case name == "math.Max":
		def(fmt.Sprintf("(ite (>= %s %s) %s %s)", arg(0), arg(1), arg(0), arg(1)))
	case name == "math.Min":
		def(fmt.Sprintf("(ite (<= %s %s) %s %s)", arg(0), arg(1), arg(0), arg(1)))
	case name == "math.Abs":
		def(fmt.Sprintf("(ite (>= %s 0.0) %s (- %s))", arg(0), arg(0), arg(0)))
	default:
		fc.errf("intrinsic %s not implemented", name)
	}
}

// ---------- contract calls ----------

// calleeEnv builds the environment in which a callee's contract is evaluated at a call site.
func (fr *frame) calleeEnv(ctr *FuncContract, callee *ssa.Function, cc *ssa.CallCommon, argTerms []string, argTypes []types.Type, resName string, resT types.Type, pre, post *State) *Env {
	fc := fr.fc
	var tpkg *types.Package
	tpkg = fc.pkgTypes(ctr.Pkg)
	env := &Env{fc: fc, tpkg: tpkg, names: map[string]TV{}, cur: post, old: pre}
	var pnames []string
	if callee != nil && callee.Blocks != nil && len(ctr.Params) == 0 {
		for _, p := range callee.Params {
			pnames = append(pnames, p.Name())
		}
	} else if len(ctr.Params) > 0 {
		pnames = ctr.Params
	} else if callee != nil {
		sig := callee.Signature
		if sig.Recv() != nil {
			pnames = append(pnames, sig.Recv().Name())
		}
		for i := 0; i < sig.Params().Len(); i++ {
			pnames = append(pnames, sig.Params().At(i).Name())
		}
	}
	for i, n := range pnames {
		if i < len(argTerms) && n != "" && n != "_" {
			env.names[n] = TV{argTerms[i], fc.P.SortOf(argTypes[i]), argTypes[i]}
		}
	}
	bindResults(env, fc, resName, resT, sigOf(callee, cc))
	// a closure of this frame called directly (e.g. by defer): its captured variables are this frame's
	if cc != nil {
		if mc, ok := fr.closures[cc.Value]; ok {
			ce := fr.closureEnv(ctr, mc, pre, post)
			env.lookup = ce.lookup
			env.addrOf = ce.addrOf
		}
	}
	return env
}

func sigOf(callee *ssa.Function, cc *ssa.CallCommon) *types.Signature {
	if callee != nil {
		return callee.Signature
	}
	if cc != nil {
		return cc.Signature()
	}
	return nil
}

func bindResults(env *Env, fc *FnCtx, resName string, resT types.Type, sig *types.Signature) {
	if resName == "" || resT == nil {
		return
	}
	if tup, ok := resT.(*types.Tuple); ok {
		for i := 0; i < tup.Len(); i++ {
			tv := TV{fmt.Sprintf("%s_r%d", resName, i), fc.P.SortOf(tup.At(i).Type()), tup.At(i).Type()}
			env.names[fmt.Sprintf("result%d", i)] = tv
			if i == 0 {
				env.names["result"] = tv
			}
			if sig != nil && sig.Results().Len() > i && sig.Results().At(i).Name() != "" {
				env.names[sig.Results().At(i).Name()] = tv
			}
		}
		return
	}
	tv := TV{resName, fc.P.SortOf(resT), resT}
	env.names["result"] = tv
	env.names["result0"] = tv
	if sig != nil && sig.Results().Len() == 1 && sig.Results().At(0).Name() != "" {
		env.names[sig.Results().At(0).Name()] = tv
	}
}

func (fc *FnCtx) pkgTypes(path string) *types.Package {
	if path == "" {
		return nil
	}
	if p, ok := fc.eng.Pkgs[path]; ok {
		return p.Types
	}
	return fc.findPkgByPath(path)
}

func (fc *FnCtx) findPkgByPath(path string) *types.Package {
	for _, p := range fc.eng.Pkgs {
		if p.PkgPath == path {
			return p.Types
		}
	}
	seen := map[*types.Package]bool{}
	var walk func(p *types.Package) *types.Package
	walk = func(p *types.Package) *types.Package {
		if seen[p] {
			return nil
		}
		seen[p] = true
		if p.Path() == path || strings.HasSuffix(p.Path(), "/vendor/"+path) {
			return p
		}
		for _, im := range p.Imports() {
			if r := walk(im); r != nil {
				return r
			}
		}
		return nil
	}
	for _, p := range fc.eng.Pkgs {
		if r := walk(p.Types); r != nil {
			return r
		}
	}
	return nil
}

func (fr *frame) contractCall(v *ssa.Call, resName string, ctr *FuncContract, callee *ssa.Function, cc *ssa.CallCommon, st *State, R string) {
	var argTerms []string
	var argTypes []types.Type
	if cc.IsInvoke() {
		argTerms = append(argTerms, fr.val(cc.Value))
		argTypes = append(argTypes, cc.Value.Type())
	}
	for _, a := range cc.Args {
		if _, isAddr := fr.addrs[a]; isAddr {
			argTerms = append(argTerms, fr.materialize(st, a))
		} else {
			argTerms = append(argTerms, fr.val(a))
		}
		argTypes = append(argTypes, a.Type())
	}
	var resT types.Type
	if v != nil {
		resT = v.Type()
	}
	fr.applyContract(ctr, callee, cc, argTerms, argTypes, resName, resT, st, R, v)
}

// requiresAtCall: the callee's preconditions as obligations (and then facts) at this call site; used for `inline` contracts.
func (fr *frame) requiresAtCall(v *ssa.Call, ctr *FuncContract, callee *ssa.Function, cc *ssa.CallCommon, st *State, R string) {
	fc := fr.fc
	var argTerms []string
	var argTypes []types.Type
	for _, a := range cc.Args {
		argTerms = append(argTerms, fr.val(a))
		argTypes = append(argTypes, a.Type())
	}
	site := ""
	if v != nil && v.Pos().IsValid() {
		p := fr.fn.Prog.Fset.Position(v.Pos())
		site = fmt.Sprintf("%s:%d", shortFile(p.Filename), p.Line)
	}
	pre := st.clone()
	envPre := fr.calleeEnv(ctr, callee, cc, argTerms, argTypes, "", nil, pre, pre)
	envPre.old = nil
	for _, c := range ctr.Requires {
		if len(c.OnlyFor) > 0 && fc.eng.CurProp != "" && !containsStr(c.OnlyFor, fc.eng.CurProp) {
			continue
		}
		g := envPre.tr(c.E)
		fc.obls = append(fc.obls, &Obl{Func: fc.key, Kind: "requires", Label: ctr.Key + ":" + c.Label, Site: fr.prefix + site, NFacts: len(fc.facts), Path: R, Goal: g.T, Text: c.Text})
		fc.fact("", "(=> %s %s)", R, g.T)
	}
}

func (fr *frame) applyContract(ctr *FuncContract, callee *ssa.Function, cc *ssa.CallCommon, argTerms []string, argTypes []types.Type, resName string, resT types.Type, st *State, R string, v *ssa.Call) {
	fc := fr.fc
	pre := st.clone()
	calleeName := ctr.Key
	site := ""
	if v != nil && v.Pos().IsValid() {
		p := fr.fn.Prog.Fset.Position(v.Pos())
		site = fmt.Sprintf("%s:%d", shortFile(p.Filename), p.Line)
	}
	// requires
	envPre := fr.calleeEnv(ctr, callee, cc, argTerms, argTypes, "", nil, pre, pre)
	envPre.old = nil
	for _, c := range ctr.Requires {
		if len(c.OnlyFor) > 0 && fc.eng.CurProp != "" && !containsStr(c.OnlyFor, fc.eng.CurProp) {
			continue // a caller obligation that belongs to other properties only
		}
		g := envPre.tr(c.E)
		fc.obls = append(fc.obls, &Obl{Func: fc.key, Kind: "requires", Label: calleeName + ":" + c.Label, Site: fr.prefix + site, NFacts: len(fc.facts), Path: R, Goal: g.T, Text: c.Text})
		fc.fact("", "(=> %s %s)", R, g.T)
	}
	// frame
	if !ctr.Pure {
		if ctr.HasMod {
			for _, m := range ctr.Modifies {
				fr.havocItem(envPre, m, st)
			}
		}
		// allocation may happen in any callee
		nt := fc.freshConst(fr.prefix+"top", "Int")
		fc.fact("", "(>= %s %s)", nt, st.comp["TOP"])
		st.comp["TOP"] = nt
	}
	fr.resultAssumeT(resName, resT, st)
	env := fr.calleeEnv(ctr, callee, cc, argTerms, argTypes, resName, resT, pre, st)
	for _, c := range ctr.Ensures {
		// clauses about the callee's own locals (defined(x) ==> ..., or naming a local) are internal: callers skip them
		if strings.Contains(c.Text, "defined(") || strings.Contains(c.Text, "afterloop(") {
			continue
		}
		nErr := len(fc.errs)
		g := env.trAssume(c.E)
		if len(fc.errs) > nErr {
			fc.errs = fc.errs[:nErr]
			continue
		}
		def := ""
		if resName != "" {
			def = resName
			if _, isTup := resT.(*types.Tuple); isTup {
				def = resName + "_r0"
			}
		}
		fc.facts = append(fc.facts, Fact{Text: fmt.Sprintf("(assert (=> %s %s))", R, g), Tag: "post:" + calleeName + ":" + c.Label, Def: def})
	}
	if ctr.PureDef != nil && resName != "" {
		g := env.tr(ctr.PureDef.E)
		fc.fact("", "(=> %s (= %s %s))", R, resName, g.T)
	}
	// ghost code of the callee at its exit (`ghost-set G = E`)
	for _, gs := range ctr.GhostSets {
		env.ident(gs.Name)
		gv := env.tr(gs.E)
		st.comp["G:"+gs.Name] = gv.T
	}
	// pure single-result functions are mathematical functions of their arguments
	if ctr.Pure && !ctr.Trusted && callee != nil && callee.Blocks != nil && callee.Parent() == nil && resName != "" && callee.Signature.Results().Len() == 1 && len(callee.FreeVars) == 0 && !heapDependent(callee) {
		name, _ := fc.pureFun(callee)
		fc.facts = append(fc.facts, Fact{Text: fmt.Sprintf("(assert (=> %s (= %s (%s %s))))", R, resName, name, strings.Join(argTerms, " ")), Tag: "pf"})
	}
}

// heapDependent: a function with pointer / map / interface parameters may read the heap; its result is then not a function of
// its argument values alone.
func heapDependent(fn *ssa.Function) bool {
	for _, p := range fn.Params {
		switch p.Type().Underlying().(type) {
		case *types.Pointer, *types.Map, *types.Interface, *types.Chan:
			return true
		}
	}
	return false
}

func (fc *FnCtx) pureFun(fn *ssa.Function) (string, []string) {
	name := "pf_" + mangle(calleePkgPath(fn)+"."+fn.Name())
	var ss []string
	for _, p := range fn.Params {
		ss = append(ss, fc.P.SortOf(p.Type()))
	}
	fc.P.Declare(name, fmt.Sprintf("(declare-fun %s (%s) %s)", name, strings.Join(ss, " "), fc.P.SortOf(fn.Signature.Results().At(0).Type())))
	return name, ss
}

func (fr *frame) resultAssumeT(resName string, resT types.Type, st *State) {
	if resName == "" || resT == nil {
		return
	}
	if tup, ok := resT.(*types.Tuple); ok {
		for i := 0; i < tup.Len(); i++ {
			fr.loadedAssume(fmt.Sprintf("%s_r%d", resName, i), tup.At(i).Type(), st)
		}
		return
	}
	fr.loadedAssume(resName, resT, st)
}

// modTarget describes one modifies item resolved against an environment.
type modTarget struct {
	all    bool
	key    string   // component
	ref    string   // object reference ("" = whole component)
	mapKey string   // for map entries: key term ("" = whole map)
	keys   []string // several components (x.*)
	local  *addr    // a local slot of the enclosing function (captured variable not yet escaped)
	localT types.Type
}

func (fr *frame) resolveModItem(env *Env, item string) []modTarget {
	fc := fr.fc
	item = strings.TrimSpace(item)
	if item == "*" || item == "heap" {
		return []modTarget{{all: true}}
	}
	if strings.HasSuffix(item, ".*") {
		e, err := ParseExpr(strings.TrimSuffix(item, ".*"))
		if err != nil {
			fc.errf("modifies %q: %v", item, err)
			return nil
		}
		x := env.tr(e)
		pt, ok := goUnder(x.Go).(*types.Pointer)
		if !ok {
			fc.errf("modifies %q: not a pointer", item)
			return nil
		}
		s, ok := pt.Elem().Underlying().(*types.Struct)
		if !ok {
			return []modTarget{{key: fc.cellComp(pt.Elem()), ref: x.T}}
		}
		var out []modTarget
		for i := 0; i < s.NumFields(); i++ {
			k, _ := fc.fieldComp(pt.Elem(), i)
			out = append(out, modTarget{key: k, ref: x.T})
		}
		return out
	}
	wholeMap := false
	if strings.HasSuffix(item, "[*]") {
		wholeMap = true
		item = strings.TrimSuffix(item, "[*]")
	}
	e, err := ParseExpr(item)
	if err != nil {
		fc.errf("modifies %q: %v", item, err)
		return nil
	}
	switch e := e.(type) {
	case *EIdent:
		if _, ok := fc.eng.Spec.Ghosts[e.Name]; ok {
			env.ident(e.Name)
			return []modTarget{{key: "G:" + e.Name}}
		}
		if wholeMap {
			x := env.tr(e)
			if mt, ok := goUnder(x.Go).(*types.Map); ok {
				mv, md, _, _ := fc.mapComps(mt)
				return []modTarget{{key: mv, ref: x.T}, {key: md, ref: x.T}}
			}
		}
		// package-level variable
		tv := env.ident(e.Name)
		_ = tv
		for k := range fc.compSort {
			if strings.HasPrefix(k, "X:") && strings.HasSuffix(k, "."+e.Name) {
				return []modTarget{{key: k}}
			}
		}
	case *ESel:
		x := env.tr(e.X)
		pt, ok := goUnder(x.Go).(*types.Pointer)
		if !ok {
			fc.errf("modifies %q: base is not a pointer", item)
			return nil
		}
		_, path := lookupFieldAnyPkg(pt.Elem(), e.Name)
		if len(path) == 0 {
			fc.errf("modifies %q: no such field", item)
			return nil
		}
		k, _ := fc.fieldComp(pt.Elem(), path[0])
		if wholeMap {
			f := env.tr(e)
			if mt, ok := goUnder(f.Go).(*types.Map); ok {
				mv, md, _, _ := fc.mapComps(mt)
				return []modTarget{{key: mv, ref: f.T}, {key: md, ref: f.T}}
			}
			fc.errf("modifies %q: not a map", item)
			return nil
		}
		return []modTarget{{key: k, ref: x.T}}
	case *ECall:
		if e.Fun == "fields" && len(e.Args) == 2 {
			// fields("T", "f"): field f of EVERY object of struct type T
			ts, ok1 := e.Args[0].(*EStr)
			fs, ok2 := e.Args[1].(*EStr)
			if ok1 && ok2 {
				T, _ := fc.resolveType(ts.Val, env.tpkg)
				if _, path := lookupFieldAnyPkg(T, fs.Val); len(path) > 0 {
					k, _ := fc.fieldComp(T, path[0])
					return []modTarget{{key: k}}
				}
			}
		}
		if e.Fun == "captured" && len(e.Args) == 1 {
			// captured("x"): the variable x a closure shares with its enclosing function
			if ns, ok := e.Args[0].(*EStr); ok && env.addrOf != nil {
				if ref, la, T, ok := env.addrOf(ns.Val); ok {
					if la != nil {
						return []modTarget{{local: la, localT: T}}
					}
					return []modTarget{{key: fc.cellComp(T), ref: ref}}
				}
				fc.errf("modifies %q: not a captured variable held in a heap cell here", item)
				return nil
			}
		}
		if e.Fun == "cells" && len(e.Args) == 1 {
			if ts, ok := e.Args[0].(*EStr); ok {
				T, _ := fc.resolveType(ts.Val, env.tpkg)
				return []modTarget{{key: fc.cellComp(T)}}
			}
		}
		if e.Fun == "smap" && len(e.Args) == 1 {
			smv, smd := fc.syncMapComps()
			a := env.tr(e.Args[0])
			return []modTarget{{key: smv, ref: a.T}, {key: smd, ref: a.T}}
		}
	case *EIndex:
		if c, ok := e.X.(*ECall); ok && c.Fun == "smap" && len(c.Args) == 1 {
			smv, smd := fc.syncMapComps()
			a := env.tr(c.Args[0])
			k := env.tr(e.I).T
			return []modTarget{{key: smv, ref: a.T, mapKey: k}, {key: smd, ref: a.T, mapKey: k}}
		}
		// ghost[k]  or  map[k]
		if id, ok := e.X.(*EIdent); ok {
			if _, isG := fc.eng.Spec.Ghosts[id.Name]; isG {
				env.ident(id.Name)
				return []modTarget{{key: "G:" + id.Name, ref: env.tr(e.I).T}}
			}
		}
		m := env.tr(e.X)
		if mt, ok := goUnder(m.Go).(*types.Map); ok {
			mv, md, _, _ := fc.mapComps(mt)
			k := env.tr(e.I).T
			return []modTarget{{key: mv, ref: m.T, mapKey: k}, {key: md, ref: m.T, mapKey: k}}
		}
	case *EUnary:
		if e.Op == "*" {
			x := env.tr(e.X)
			if pt, ok := goUnder(x.Go).(*types.Pointer); ok {
				if s, ok := pt.Elem().Underlying().(*types.Struct); ok {
					var out []modTarget
					for i := 0; i < s.NumFields(); i++ {
						k, _ := fc.fieldComp(pt.Elem(), i)
						out = append(out, modTarget{key: k, ref: x.T})
					}
					return out
				}
				return []modTarget{{key: fc.cellComp(pt.Elem()), ref: x.T}}
			}
		}
	}
	fc.errf("modifies %q: unsupported item", item)
	return nil
}

func (fr *frame) havocItem(env *Env, item string, st *State) {
	fc := fr.fc
	for _, t := range fr.resolveModItem(env, item) {
		switch {
		case t.all:
			fr.havocAllKeepFresh(st)
		case t.local != nil:
			// a variable of the enclosing function that is still a local slot here
			fc.store(st, t.local, fc.freshConst("hv_local", fc.P.SortOf(t.localT)))
		case t.ref == "":
			st.comp[t.key] = fc.freshConst("hv_"+t.key, fc.compSort[t.key])
		case t.mapKey != "":
			inner := arrayRange(fc.compSort[t.key])
			nv := fc.freshConst("hv_"+t.key, arrayRange(inner))
			cur := fc.lookup(st, t.key)
			st.comp[t.key] = fmt.Sprintf("(store %s %s (store (select %s %s) %s %s))", cur, t.ref, cur, t.ref, t.mapKey, nv)
		default:
			nv := fc.freshConst("hv_"+t.key, arrayRange(fc.compSort[t.key]))
			st.comp[t.key] = fmt.Sprintf("(store %s %s %s)", fc.lookup(st, t.key), t.ref, nv)
		}
	}
}

// modifiesKeys: component keys an item may touch (for loop havoc); "*" = everything.
func (fr *frame) modifiesKeys(ctr *FuncContract, callee *ssa.Function, cc *ssa.CallCommon, item string) []string {
	fc := fr.fc
	// evaluate in a scratch environment with dummy argument terms (only the component keys matter)
	var argTerms []string
	var argTypes []types.Type
	if cc.IsInvoke() {
		argTerms = append(argTerms, "0")
		argTypes = append(argTypes, cc.Value.Type())
	}
	for _, a := range cc.Args {
		argTerms = append(argTerms, "0")
		argTypes = append(argTypes, a.Type())
	}
	scratch := &State{comp: map[string]string{"TOP": "0"}, epoch: 0}
	nErr := len(fc.errs)
	env := fr.calleeEnv(ctr, callee, cc, argTerms, argTypes, "", nil, scratch, scratch)
	ts := fr.resolveModItem(env, item)
	fc.errs = fc.errs[:nErr]
	var out []string
	for _, t := range ts {
		if t.all {
			return []string{"*"}
		}
		out = append(out, t.key)
	}
	if len(ts) == 0 {
		return []string{"*"}
	}
	return out
}

// ---------- inlining ----------

func (fr *frame) inlineCall(v *ssa.Call, resName string, callee *ssa.Function, cc *ssa.CallCommon, st *State, R string) {
	fc := fr.fc
	fc.fresh++
	sub := newFrame(fc, callee, fmt.Sprintf("%si%d_", fr.prefix, fc.fresh))
	sub.inlined = true
	for i, p := range callee.Params {
		a := cc.Args[i]
		if ad, isAddr := fr.addrs[a]; isAddr {
			sub.addrs[p] = ad
			if ad.kind == 2 && len(ad.path) == 0 {
				sub.vals[p] = ad.ref
			}
		} else {
			sub.vals[p] = fr.val(a)
		}
	}
	if mc, ok := cc.Value.(*ssa.MakeClosure); ok {
		for i, fv := range callee.FreeVars {
			b := mc.Bindings[i]
			if ad, isAddr := fr.addrs[b]; isAddr {
				sub.addrs[fv] = ad
				if ad.kind == 2 && len(ad.path) == 0 {
					sub.vals[fv] = ad.ref
				}
			} else {
				sub.vals[fv] = fr.val(b)
			}
		}
	}
	fc.depth++
	sub.run(st, R)
	fc.depth--
	if len(sub.rets) == 0 {
		fc.fact("", "(not %s)", R) // callee never returns (panics)
		return
	}
	var conds []string
	var sts []*State
	for _, r := range sub.rets {
		conds = append(conds, r.reach)
		sts = append(sts, r.state)
	}
	merged := fc.mergeStates(conds, sts, sub.prefix+"ret")
	*st = *merged
	if v != nil {
		if tup, ok := v.Type().(*types.Tuple); ok {
			for i := 0; i < tup.Len(); i++ {
				var ts []string
				for _, r := range sub.rets {
					ts = append(ts, r.results[i])
				}
				fc.fact("", "(= %s_r%d %s)", resName, i, iteChain(conds, ts))
			}
		} else {
			var ts []string
			for _, r := range sub.rets {
				ts = append(ts, r.results[0])
			}
			fc.fact("", "(= %s %s)", resName, iteChain(conds, ts))
		}
	}
}

// ---------- closures ----------

func (fr *frame) makeClosure(in *ssa.MakeClosure, st *State, R string) {
	fc := fr.fc
	n := fr.declareVal(in)
	fc.fact("", "(> %s 0)", n)
	fr.closures[in] = in
	fn := in.Fn.(*ssa.Function)
	// identity of the closure: which function it is, and what its captured variables held at creation. The second fact
	// is emitted only for variables assigned exactly once in the enclosing function and never in the closure.
	fc.fact("", "(= (%s %s) %d)", fc.cloFnFun(), n, cloID(fn))
	for i, fv := range fn.FreeVars {
		b := in.Bindings[i]
		pt, isPtr := b.Type().Underlying().(*types.Pointer)
		if al, ok := b.(*ssa.Alloc); ok && isPtr && singleAssignment(al, fn) {
			if a, ok := fr.addrs[b]; ok {
				t, T := fc.load(st, a)
				fc.fact("", "(= (%s %s) %s)", fc.cloFvFun(i, fc.P.SortOf(T)), n, t)
			} else {
				t := fc.loadHeapValue(st, fr.val(b), pt.Elem())
				fc.fact("", "(= (%s %s) %s)", fc.cloFvFun(i, fc.P.SortOf(pt.Elem())), n, t)
			}
		}
		_ = fv
	}
	ctr := fc.eng.ContractFor(fn)
	if ctr == nil || ctr.PureDef == nil {
		return
	}
	// forall args. app(clo, args) == E[freevars := current cell contents]
	var tpkg *types.Package
	tpkg = fc.pkgTypes(ctr.Pkg)
	env := &Env{fc: fc, tpkg: tpkg, names: map[string]TV{}, cur: st}
	for i, fv := range fn.FreeVars {
		b := in.Bindings[i]
		if a, ok := fr.addrs[b]; ok {
			t, T := fc.load(st, a)
			env.names[fv.Name()] = TV{t, fc.P.SortOf(T), T}
		} else if pt, ok := b.Type().Underlying().(*types.Pointer); ok {
			t := fc.loadHeapValue(st, fr.val(b), pt.Elem())
			env.names[fv.Name()] = TV{t, fc.P.SortOf(pt.Elem()), pt.Elem()}
		} else {
			env.names[fv.Name()] = TV{fr.val(b), fc.P.SortOf(b.Type()), b.Type()}
		}
	}
	var qs, as, ss []string
	for _, p := range fn.Params {
		q := "q_" + mangle(p.Name())
		s := fc.P.SortOf(p.Type())
		env.names[p.Name()] = TV{q, s, p.Type()}
		qs = append(qs, fmt.Sprintf("(%s %s)", q, s))
		as = append(as, q)
		ss = append(ss, s)
	}
	res := fn.Signature.Results()
	if res.Len() != 1 {
		fc.errf("pure-def closure %s must have one result", fn.Name())
		return
	}
	app := fc.appFun(ss, fc.P.SortOf(res.At(0).Type()))
	body := env.tr(ctr.PureDef.E)
	fc.fact("", "(forall (%s) (! (= (%s %s %s) %s) :pattern ((%s %s %s))))", strings.Join(qs, " "), app, n, strings.Join(as, " "), body.T, app, n, strings.Join(as, " "))
}

// singleAssignment: the captured cell is stored to exactly once in its function and never in the closure (or its nested closures).
func singleAssignment(al *ssa.Alloc, clo *ssa.Function) bool {
	stores := 0
	for _, ref := range *al.Referrers() {
		if st, ok := ref.(*ssa.Store); ok && st.Addr == al {
			stores++
		}
	}
	if stores != 1 {
		return false
	}
	var writes func(fn *ssa.Function) bool
	writes = func(fn *ssa.Function) bool {
		for _, b := range fn.Blocks {
			for _, in := range b.Instrs {
				if st, ok := in.(*ssa.Store); ok {
					if fv, ok := st.Addr.(*ssa.FreeVar); ok && fv.Type() == al.Type() {
						return true
					}
				}
			}
		}
		for _, an := range fn.AnonFuncs {
			if writes(an) {
				return true
			}
		}
		return false
	}
	// other closures of the same parent may also capture and write the cell
	for _, an := range al.Parent().AnonFuncs {
		if writes(an) {
			return false
		}
	}
	return !writes(clo)
}

func (fr *frame) contractCallClosure(v *ssa.Call, resName string, ctr *FuncContract, mc *ssa.MakeClosure, cc *ssa.CallCommon, st *State, R string) {
	var argTerms []string
	var argTypes []types.Type
	for _, a := range cc.Args {
		argTerms = append(argTerms, fr.val(a))
		argTypes = append(argTypes, a.Type())
	}
	var resT types.Type
	if v != nil {
		resT = v.Type()
	}
	fr.applyContract(ctr, mc.Fn.(*ssa.Function), cc, argTerms, argTypes, resName, resT, st, R, v)
}

// ---------- loop invariants ----------

func (fr *frame) invEnv(h *ssa.BasicBlock, st *State, phiSub map[*ssa.Phi]ssa.Value) *Env {
	fc := fr.fc
	env := fr.baseEnv(st)
	env.lookup = func(name string, s *State) (TV, bool) {
		if name == "idx" {
			for _, in := range h.Instrs {
				phi, ok := in.(*ssa.Phi)
				if !ok {
					break
				}
				if phi.Comment == "rangeindex" {
					var v ssa.Value = phi
					if phiSub != nil {
						if sv, ok := phiSub[phi]; ok {
							v = sv
						}
					}
					return TV{fmt.Sprintf("(+ %s 1)", fr.val(v)), "Int", types.Typ[types.Int]}, true
				}
			}
			// map range
			for _, in := range h.Instrs {
				if nx, ok := in.(*ssa.Next); ok {
					if rng, ok := nx.Iter.(*ssa.Range); ok {
						key := "L:" + fr.prefix + "rangepos_" + rng.Name()
						if t, ok := s.comp[key]; ok {
							return TV{t, "Int", types.Typ[types.Int]}, true
						}
						// before the first Next the position is 0
						return TV{"0", "Int", types.Typ[types.Int]}, true
					}
				}
			}
			return TV{}, false
		}
		if name == "rangekeys" {
			for _, in := range h.Instrs {
				if nx, ok := in.(*ssa.Next); ok {
					if rng, ok := nx.Iter.(*ssa.Range); ok && rangeInfos[rng] != nil {
						ri := rangeInfos[rng]
						return TV{ri.keys, fc.P.SeqSort(ri.ks), types.NewSlice(ri.mt.Key())}, true
					}
				}
			}
			return TV{}, false
		}
		if tv, ok := fr.resolveName(name, h, false, s, phiSub); ok {
			return tv, true
		}
		return fr.paramLookup(name, s)
	}
	return env
}

func (fr *frame) paramLookup(name string, s *State) (TV, bool) {
	fc := fr.fc
	for _, p := range fr.fn.Params {
		if p.Name() == name {
			return TV{fr.val(p), fc.P.SortOf(p.Type()), p.Type()}, true
		}
	}
	for _, fv := range fr.fn.FreeVars {
		if fv.Name() == name {
			if pt, ok := fv.Type().Underlying().(*types.Pointer); ok {
				return TV{fc.loadHeapValue(s, fr.val(fv), pt.Elem()), fc.P.SortOf(pt.Elem()), pt.Elem()}, true
			}
			return TV{fr.val(fv), fc.P.SortOf(fv.Type()), fv.Type()}, true
		}
	}
	return TV{}, false
}

func (fr *frame) baseEnv(st *State) *Env {
	fc := fr.fc
	var tpkg *types.Package
	if fr.fn.Pkg != nil {
		tpkg = fr.fn.Pkg.Pkg
	}
	env := &Env{fc: fc, tpkg: tpkg, names: map[string]TV{}, cur: st, old: fr.entryState, loopEntry: fr.loopEntry}
	if fr.iterated != "" {
		env.names["iterated"] = TV{fr.iterated, "Int", types.Typ[types.Int]}
	}
	env.param = func(name string) (TV, bool) { return fr.paramLookup(name, fr.entryState) }
	env.fr = fr
	env.addrOf = func(name string) (string, *addr, types.Type, bool) {
		for _, fv := range fr.fn.FreeVars {
			if fv.Name() == name {
				if pt, ok := fv.Type().Underlying().(*types.Pointer); ok {
					if la, isLocal := fr.addrs[fv]; isLocal {
						return "", la, pt.Elem(), true
					}
					return fr.val(fv), nil, pt.Elem(), true
				}
			}
		}
		return "", nil, nil, false
	}
	return env
}

func (fr *frame) loopInvariants(h *ssa.BasicBlock) []*Clause {
	if fr.contract == nil {
		return nil
	}
	var out []*Clause
	for _, c := range fr.contract.Invariants {
		if c.Loop == fr.ordinal[h] {
			out = append(out, c)
		}
	}
	// implicit invariant of every range-over-slice loop: the hidden index is never below -1 (proved like any other)
	if len(out) > 0 {
		for _, in := range h.Instrs {
			if phi, ok := in.(*ssa.Phi); ok && phi.Comment == "rangeindex" {
				e, _ := ParseExpr("idx >= 0")
				out = append(out, &Clause{Kind: "invariant", Label: "auto_idx", Loop: fr.ordinal[h], Stage: 1, Text: "idx >= 0", E: e})
				break
			}
		}
	}
	return out
}

func (fr *frame) checkInvariants(h *ssa.BasicBlock, preds []*ssa.BasicBlock, preserved bool) {
	fc := fr.fc
	invs := fr.loopInvariants(h)
	if len(invs) == 0 {
		if !preserved && !fr.inlined {
			fc.errf("%s: loop %d (block %d) has no invariant", fr.fn.Name(), fr.ordinal[h], h.Index)
		}
		return
	}
	for _, p := range preds {
		e := fr.edge[[2]int{p.Index, h.Index}]
		// index of p among h.Preds
		pi := -1
		for i, q := range h.Preds {
			if q == p {
				pi = i
			}
		}
		sub := map[*ssa.Phi]ssa.Value{}
		for _, in := range h.Instrs {
			if phi, ok := in.(*ssa.Phi); ok {
				sub[phi] = phi.Edges[pi]
			}
		}
		env := fr.invEnv(h, fr.exit[p], sub)
		kind := "invariant-init"
		if preserved {
			kind = "invariant-preserved"
		}
		for _, c := range invs {
			for k, part := range splitConj(c.E) {
				g := env.tr(part)
				fc.obls = append(fc.obls, &Obl{Func: fc.key, Kind: kind, Label: fmt.Sprintf("loop%d:%s", c.Loop, c.Label), Site: fmt.Sprintf("%sb%d.%d", fr.prefix, p.Index, k), NFacts: len(fc.facts), Path: e, Goal: g.T, Using: c.Using, Stage: c.Stage, Loop: c.Loop, Text: c.Text})
			}
		}
	}
}

func (fr *frame) assumeInvariants(h *ssa.BasicBlock, st *State) {
	fc := fr.fc
	env := fr.invEnv(h, st, nil)
	R := fr.reach[h]
	for _, c := range fr.loopInvariants(h) {
		g := env.trAssume(c.E)
		fc.facts = append(fc.facts, Fact{Text: fmt.Sprintf("(assert (=> %s %s))", R, g), Tag: fmt.Sprintf("inv:%d:%s:%d", c.Loop, c.Label, c.Stage)})
	}
}

// foreachHelper: a library iterator that calls a closure once per element of a collection, in some order, until the closure
// returns false: goset.Set.Range(func(index, elem) bool) and (*sync.Map).Range(func(key, value) bool).
type foreachHelper struct {
	name  string
	fnArg int // index of the closure in cc.Args
	kind  int // 1 goset, 2 sync.Map
}

func foreachHelperOf(cc *ssa.CallCommon) *foreachHelper {
	if cc.IsInvoke() {
		if cc.Method.Name() == "Range" && cc.Method.Pkg() != nil && strings.HasSuffix(cc.Method.Pkg().Path(), "github.com/zoumo/goset") {
			return &foreachHelper{name: "goset.Set.Range", fnArg: 0, kind: 1}
		}
		return nil
	}
	if callee := cc.StaticCallee(); callee != nil && callee.String() == "(*sync.Map).Range" && len(cc.Args) == 2 {
		return &foreachHelper{name: "sync.Map.Range", fnArg: 1, kind: 2}
	}
	return nil
}

// foreachCall: higher-order stub for the iterators above, for a closure under contract.
//   - the closure's requires are asserted for an arbitrary element at the state before the iteration (that they hold again
//     before every later call is the closure's own obligation "requires re-established", see VerifyFunc);
//   - everything the closure may modify is havocked; if the collection is empty nothing changes;
//   - ensures labelled each_* (one-state, proved stable under further calls in VerifyFunc) hold afterwards for EVERY element
//     provided the last call returned true (then no call returned false and every element was visited);
//   - the other ensures are assumed for the last call with old() = the state before the iteration. TRUSTED: they must be
//     reflexive-transitive two-state relations or one-state facts (the same assumption as for the retry helpers).
func (fr *frame) foreachCall(fe *foreachHelper, ctr *FuncContract, mc *ssa.MakeClosure, cc *ssa.CallCommon, st *State, R string) {
	fc := fr.fc
	P := fc.P
	fn := mc.Fn.(*ssa.Function)
	if len(fn.Params) != 2 {
		fc.errf("%s: closure must take two parameters", fe.name)
		return
	}
	pre := st.clone()
	fc.fresh++
	tag := fmt.Sprintf("%sfe%d", fr.prefix, fc.fresh)
	// membership of an element (as SMT term over a variable name) in the collection before the iteration
	var member func(p0, p1 string) string
	var bindPattern func(p0, p1 string) string
	switch fe.kind {
	case 1:
		fc.compDecl("G:gsmem", "(Array Int (Array Int Bool))")
		mem := fmt.Sprintf("(select %s %s)", fc.lookup(pre, "G:gsmem"), fr.val(cc.Value))
		member = func(p0, p1 string) string { return fmt.Sprintf("(select %s %s)", mem, p1) }
		bindPattern = member
	case 2:
		smv, smd := fc.syncMapComps()
		a := fr.val(cc.Args[0])
		dom := fmt.Sprintf("(select %s %s)", fc.lookup(pre, smd), a)
		val := fmt.Sprintf("(select %s %s)", fc.lookup(pre, smv), a)
		member = func(p0, p1 string) string {
			return fmt.Sprintf("(and (select %s %s) (= %s (select %s %s)))", dom, p0, p1, val, p0)
		}
		bindPattern = func(p0, p1 string) string { return fmt.Sprintf("(select %s %s)", dom, p0) }
	}
	itTerm := fr.val(cc.Value)
	if fe.kind == 2 {
		itTerm = fr.val(cc.Args[0])
	}
	paramEnv := func(e *Env, p0, p1 string) {
		e.names["iterated"] = TV{itTerm, "Int", types.Typ[types.Int]}
		e.names[fn.Params[0].Name()] = TV{p0, P.SortOf(fn.Params[0].Type()), fn.Params[0].Type()}
		e.names[fn.Params[1].Name()] = TV{p1, P.SortOf(fn.Params[1].Type()), fn.Params[1].Type()}
	}
	// first call: requires for an arbitrary member
	f0, f1 := fc.freshConst(tag+"_first0", P.SortOf(fn.Params[0].Type())), fc.freshConst(tag+"_first1", P.SortOf(fn.Params[1].Type()))
	envPre := fr.closureEnv(ctr, mc, pre, pre)
	paramEnv(envPre, f0, f1)
	for _, c := range ctr.Requires {
		g := envPre.tr(c.E)
		fc.obls = append(fc.obls, &Obl{Func: fc.key, Kind: "requires", Label: ctr.Key + ":" + c.Label, Site: fr.prefix + "foreach", NFacts: len(fc.facts), Path: fmt.Sprintf("(and %s %s)", R, member(f0, f1)), Goal: g.T, Text: c.Text})
	}
	// effects
	if ctr.HasMod {
		for _, m := range ctr.Modifies {
			fr.havocItem(envPre, m, st)
		}
	} else if !ctr.Pure {
		fr.havocAllKeepFresh(st)
	}
	nt := fc.freshConst(tag+"_top", "Int")
	fc.fact("", "(>= %s %s)", nt, st.comp["TOP"])
	st.comp["TOP"] = nt
	// empty collection: nothing happened
	ran := fc.freshConst(tag+"_ran", "Bool")
	w0, w1 := fc.freshConst(tag+"_w0", P.SortOf(fn.Params[0].Type())), fc.freshConst(tag+"_w1", P.SortOf(fn.Params[1].Type()))
	fc.fact("", "(=> %s (=> %s %s))", R, ran, member(w0, w1))
	fc.fact("", "(=> %s (=> (not %s) (forall ((fe_p0 %s) (fe_p1 %s)) (! (not %s) :pattern (%s)))))", R, ran, P.SortOf(fn.Params[0].Type()), P.SortOf(fn.Params[1].Type()), member("fe_p0", "fe_p1"), bindPattern("fe_p0", "fe_p1"))
	merged := fc.mergeStates([]string{ran, "true"}, []*State{st, pre}, tag)
	*st = *merged
	// last call
	l0, l1 := fc.freshConst(tag+"_last0", P.SortOf(fn.Params[0].Type())), fc.freshConst(tag+"_last1", P.SortOf(fn.Params[1].Type()))
	fc.fact("", "(=> %s (=> %s %s))", R, ran, member(l0, l1))
	lastret := fc.freshConst(tag+"_lastret", "Bool")
	post := fr.closureEnv(ctr, mc, pre, st)
	paramEnv(post, l0, l1)
	res := fn.Signature.Results()
	if res.Len() == 1 {
		post.names["result"] = TV{lastret, "Bool", res.At(0).Type()}
		post.names["result0"] = post.names["result"]
	}
	guard := fmt.Sprintf("(and %s %s)", R, ran)
	for _, c := range ctr.Ensures {
		if strings.HasPrefix(c.Label, "each_") || strings.Contains(c.Text, "defined(") {
			continue
		}
		nErr := len(fc.errs)
		g := post.trAssume(c.E)
		if len(fc.errs) > nErr {
			fc.errs = fc.errs[:nErr]
			continue
		}
		fc.facts = append(fc.facts, Fact{Text: fmt.Sprintf("(assert (=> %s %s))", guard, g), Tag: "post:" + ctr.Key + ":" + c.Label})
	}
	// every element was visited
	for _, c := range ctr.Ensures {
		if !strings.HasPrefix(c.Label, "each_") {
			continue
		}
		each := fr.closureEnv(ctr, mc, pre, st)
		each.old = nil
		paramEnv(each, "fe_p0", "fe_p1")
		nErr := len(fc.errs)
		g := each.tr(c.E)
		if len(fc.errs) > nErr {
			continue
		}
		fc.facts = append(fc.facts, Fact{Text: fmt.Sprintf("(assert (=> (and %s %s) (forall ((fe_p0 %s) (fe_p1 %s)) (! (=> %s %s) :pattern (%s)))))", guard, lastret, P.SortOf(fn.Params[0].Type()), P.SortOf(fn.Params[1].Type()), member("fe_p0", "fe_p1"), g.T, bindPattern("fe_p0", "fe_p1")), Tag: "post:" + ctr.Key + ":" + c.Label})
	}
	fc.abstract("iterator %s: sequentialised; non-each ensures of the closure are assumed across the whole iteration (trusted: transitive relations)", fe.name)
}

// retryHelpers: helper -> index of the closure argument.
var retryHelpers = map[string]int{
	"k8s.io/client-go/util/retry.RetryOnConflict":            1,
	"k8s.io/apimachinery/pkg/util/wait.ExponentialBackoff":   1,
	"k8s.io/apiserver/pkg/util/webhook.WithExponentialBackoff": 2,
}

// retryCall: higher-order stub for retry.RetryOnConflict(backoff, fn) and wait.ExponentialBackoff(backoff, cond).
// TRUSTED: the helper calls the closure one or more times and returns nil only if the LAST call returned nil
// (resp. done == true, err == nil). Effects: whatever the closure's contract says it modifies, any number of times.
func (fr *frame) retryCall(v *ssa.Call, resName, full string, ctr *FuncContract, mc *ssa.MakeClosure, st *State, R string) {
	fc := fr.fc
	fn := mc.Fn.(*ssa.Function)
	pre := st.clone()
	env := fr.closureEnv(ctr, mc, pre, pre)
	for _, c := range ctr.Requires {
		g := env.tr(c.E)
		fc.obls = append(fc.obls, &Obl{Func: fc.key, Kind: "requires", Label: ctr.Key + ":" + c.Label, Site: fr.prefix + "retry", NFacts: len(fc.facts), Path: R, Goal: g.T, Text: c.Text})
		fc.fact("", "(=> %s %s)", R, g.T)
	}
	if ctr.HasMod {
		for _, m := range ctr.Modifies {
			fr.havocItem(env, m, st)
		}
	} else if !ctr.Pure {
		// no modifies clause on an effectful closure: nothing is known
		fr.havocAllKeepFresh(st)
	}
	nt := fc.freshConst(fr.prefix+"top", "Int")
	fc.fact("", "(>= %s %s)", nt, st.comp["TOP"])
	st.comp["TOP"] = nt
	// final call of the closure: its results are fresh; the helper's result is nil iff the final call succeeded
	post := fr.closureEnv(ctr, mc, pre, st)
	res := fn.Signature.Results()
	var lastOK string
	if res.Len() == 1 {
		e := fc.freshConst(fr.prefix+"lasterr", "Int")
		post.names["result"] = TV{e, "Int", res.At(0).Type()}
		post.names["result0"] = post.names["result"]
		if n := res.At(0).Name(); n != "" {
			post.names[n] = post.names["result"]
		}
		lastOK = fmt.Sprintf("(= %s 0)", e)
	} else if res.Len() == 2 {
		d := fc.freshConst(fr.prefix+"lastdone", "Bool")
		e := fc.freshConst(fr.prefix+"lasterr", "Int")
		post.names["result"] = TV{d, "Bool", res.At(0).Type()}
		post.names["result0"] = post.names["result"]
		post.names["result1"] = TV{e, "Int", res.At(1).Type()}
		for i := 0; i < 2; i++ {
			if n := res.At(i).Name(); n != "" {
				post.names[n] = post.names[fmt.Sprintf("result%d", i)]
			}
		}
		lastOK = fmt.Sprintf("(and %s (= %s 0))", d, e)
	} else {
		fc.errf("retry helper: unsupported closure signature")
		return
	}
	for _, c := range ctr.Ensures {
		if strings.Contains(c.Text, "defined(") {
			continue
		}
		nErr := len(fc.errs)
		g := post.trAssume(c.E)
		if len(fc.errs) > nErr {
			fc.errs = fc.errs[:nErr]
			continue
		}
		fc.facts = append(fc.facts, Fact{Text: fmt.Sprintf("(assert (=> %s %s))", R, g), Tag: "post:" + ctr.Key + ":" + c.Label})
	}
	fc.fact("", "(=> %s (=> (= %s 0) %s))", R, resName, lastOK)
	if strings.HasSuffix(full, "webhook.WithExponentialBackoff") && res.Len() == 1 {
		// this helper returns exactly the error of the last call
		fc.fact("", "(=> %s (= %s %s))", R, resName, post.names["result"].T)
	}
	fc.abstract("retry helper %s: returns nil only if the last call of the closure succeeded (trusted)", full)
}

// closureEnv: environment for a closure's contract at the place where the closure value is used.
func (fr *frame) closureEnv(ctr *FuncContract, mc *ssa.MakeClosure, pre, post *State) *Env {
	fc := fr.fc
	fn := mc.Fn.(*ssa.Function)
	env := &Env{fc: fc, tpkg: fc.pkgTypes(ctr.Pkg), names: map[string]TV{}, cur: post, old: pre}
	binds := map[string]ssa.Value{}
	for i, fv := range fn.FreeVars {
		binds[fv.Name()] = mc.Bindings[i]
	}
	env.addrOf = func(name string) (string, *addr, types.Type, bool) {
		b, ok := binds[name]
		if !ok {
			return "", nil, nil, false
		}
		pt, ok := b.Type().Underlying().(*types.Pointer)
		if !ok {
			return "", nil, nil, false
		}
		if la, isLocal := fr.addrs[b]; isLocal {
			return "", la, pt.Elem(), true
		}
		return fr.val(b), nil, pt.Elem(), true
	}
	env.lookup = func(name string, s *State) (TV, bool) {
		b, ok := binds[name]
		if !ok {
			return TV{}, false
		}
		if a, ok := fr.addrs[b]; ok {
			t, T := fc.load(s, a)
			return TV{t, fc.P.SortOf(T), T}, true
		}
		if pt, ok := b.Type().Underlying().(*types.Pointer); ok {
			return TV{fc.loadHeapValue(s, fr.val(b), pt.Elem()), fc.P.SortOf(pt.Elem()), pt.Elem()}, true
		}
		return TV{fr.val(b), fc.P.SortOf(b.Type()), b.Type()}, true
	}
	return env
}
