package main

import (
	"golang.org/x/tools/go/ssa"
	"flag"
	"fmt"
	"os"
	"path/filepath"
	"sort"
	"strings"
	"time"
)

func main() {
	if len(os.Args) < 2 {
		fmt.Fprintln(os.Stderr, "usage: govc check|func|lemma|replay|selftest ...")
		os.Exit(2)
	}
	switch os.Args[1] {
	case "func":
		cmdFunc(os.Args[2:])
	case "check":
		os.Exit(cmdCheck(os.Args[2:]))
	case "replay":
		os.Exit(cmdReplay(os.Args[2:]))
	case "cexable":
		cmdCexable()
	case "selftest":
		os.Exit(cmdSelftest(os.Args[2:]))
	default:
		fmt.Fprintln(os.Stderr, "unknown command", os.Args[1])
		os.Exit(2)
	}
}

func envOr(k, d string) string {
	if v := os.Getenv(k); v != "" {
		return v
	}
	return d
}

// cmdFunc: debugging aid — verify the named functions and print every obligation.
func cmdFunc(args []string) {
	fs := flag.NewFlagSet("func", flag.ExitOnError)
	repo := fs.String("repo", envOr("GOVC_REPO", "/repo"), "repository")
	verif := fs.String("verif", envOr("GOVC_VERIF", "/verif"), "verif dir")
	pkgs := fs.String("pkgs", "", "comma separated root packages")
	timeout := fs.Int("timeout", 10, "per query timeout (s)")
	verbose := fs.Bool("v", false, "print goals")
	small := fs.Bool("small", false, "small-scope encoding")
	lemmas := fs.Bool("lemmas", false, "also check lemmas")
	fs.Parse(args)
	e := NewEngine(*repo, *verif)
	if err := e.LoadSpecs(); err != nil {
		fmt.Fprintln(os.Stderr, "spec error:", err)
		os.Exit(2)
	}
	t0 := time.Now()
	if err := e.Load(strings.Split(*pkgs, ",")); err != nil {
		fmt.Fprintln(os.Stderr, "load error:", err)
		os.Exit(2)
	}
	fmt.Printf("loaded in %.1fs, %d functions indexed\n", time.Since(t0).Seconds(), len(e.Funcs))
	work := filepath.Join(*verif, "work", "func")
	os.MkdirAll(work, 0o755)
	keys := fs.Args()
	if len(keys) == 0 {
		for _, k := range e.Spec.Order {
			if _, ok := e.Funcs[k]; ok && !e.Spec.Funcs[k].Trusted {
				keys = append(keys, k)
			}
		}
	}
	for _, key := range keys {
		if !strings.Contains(key, "::") {
			// match by suffix
			for _, k := range e.Spec.Order {
				if strings.HasSuffix(k, "::"+key) {
					key = k
				}
			}
		}
		if e.Spec.Funcs[key] == nil {
			fmt.Println("no contract for", key)
			continue
		}
		if os.Getenv("GOVC_DUMP") != "" {
			fn := e.Funcs[key]
			for _, b := range fn.Blocks {
				for _, in := range b.Instrs {
					if dr, ok := in.(*ssa.DebugRef); ok {
						fmt.Printf("b%d: %s  [X=%s %T]\n", b.Index, dr.String(), dr.X.Name(), dr.X)
					}
				}
			}
			continue
		}
		fc := e.VerifyFunc(key, *small)
		reportFn(fc, work, *timeout, *verbose)
		if len(e.Spec.Funcs[key].Guarantee) > 0 {
			reportFn(e.VerifyGuarantee(key), work, *timeout, *verbose)
		}
	}
	if *lemmas {
		for _, r := range e.Spec.Refines {
			fc := e.VerifyRefinement(r)
			reportFn(fc, work, *timeout, *verbose)
		}
		for _, l := range e.Spec.Lemmas {
			if l.Axiom {
				continue
			}
			fc := e.VerifyLemma(l, *small)
			reportFn(fc, work, *timeout, *verbose)
		}
	}
}

func reportFn(fc *FnCtx, work string, timeout int, verbose bool) []*Verdict {
	fmt.Printf("== %s: %d obligations, %d facts, %d errors\n", fc.key, len(fc.obls), len(fc.facts), len(fc.errs))
	for _, e := range fc.errs {
		fmt.Println("   ERROR:", e)
	}
	vs := make([]*Verdict, len(fc.obls))
	scripts := make([]string, len(fc.obls))
	sliced := make([]string, len(fc.obls))
	for i, o := range fc.obls {
		scripts[i] = fc.Query(o, true)
		sliced[i] = fc.QueryOpt(o, true, true)
	}
	var jobs []func()
	for i := range fc.obls {
		i := i
		jobs = append(jobs, func() {
			if len(sliced[i]) < len(scripts[i])*9/10 {
				v := Discharge(fc.obls[i], sliced[i], work, timeout, false)
				if v.Status == "proved" {
					v.Solver += "+slice"
					vs[i] = v
					return
				}
			}
			vs[i] = Discharge(fc.obls[i], scripts[i], work, timeout, false)
		})
	}
	pool(16, jobs)
	for _, v := range vs {
		fmt.Printf("   %-70s %-8s %-8s %-10s %6.2fs\n", v.Obl.Kind+":"+v.Obl.Label+"@"+v.Obl.Site, v.Status, v.Class, v.Solver, v.Secs)
		if verbose || v.Status != "proved" {
			fmt.Printf("        file: %s\n", v.File)
			if v.Obl.Text != "" {
				fmt.Printf("        text: %s\n", v.Obl.Text)
			}
		}
	}
	var abs []string
	for a := range fc.abstractions {
		abs = append(abs, a)
	}
	sort.Strings(abs)
	for _, a := range abs {
		fmt.Println("   abstraction:", a)
	}
	return vs
}

// cmdCexable lists, per property, the functions under contract whose failing obligations can be replayed on the real code.
func cmdCexable() {
	verif := envOr("GOVC_VERIF", "/verif")
	cfgs := map[string]*PropCfg{}
	loadJSON(filepath.Join(verif, "contracts", "properties.json"), &cfgs)
	var props []string
	for p := range cfgs {
		props = append(props, p)
	}
	sort.Strings(props)
	for _, p := range props {
		e := NewEngine(envOr("GOVC_REPO", "/repo"), verif)
		if err := e.LoadSpecs(); err != nil {
			fmt.Println(err)
			return
		}
		if err := e.Load(cfgs[p].Packages); err != nil {
			fmt.Println(err)
			return
		}
		n := 0
		var yes []string
		for _, k := range e.Spec.Order {
			c := e.Spec.Funcs[k]
			has := false
			for _, q := range c.Props {
				if q == p {
					has = true
				}
			}
			if !has || c.Trusted || e.Funcs[k] == nil {
				continue
			}
			n++
			if ok, _ := cexEligible(e.Funcs[k]); ok {
				yes = append(yes, k[strings.LastIndex(k, "/")+1:])
			}
		}
		fmt.Printf("%s: %d of %d functions replayable: %v\n", p, len(yes), n, yes)
	}
}
