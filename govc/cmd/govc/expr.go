package main

// Translation of contract expressions to SMT terms.

import (
	"fmt"
	"os"
	"go/ast"
	"go/constant"
	goparser "go/parser"
	"go/types"
	"strings"

	"golang.org/x/tools/go/packages"
	"golang.org/x/tools/go/ssa"
)

type Env struct {
	loopEntry map[int]*State
	fc     *FnCtx
	pkg    *packages.Package
	tpkg   *types.Package
	names  map[string]TV
	lookup func(name string, st *State) (TV, bool)
	fr     *frame                        // the frame under verification (select builtins)
	param  func(name string) (TV, bool) // entry value of a parameter of the function under verification
	addrOf func(name string) (string, *addr, types.Type, bool) // heap cell (or local slot) of a captured variable (closures)
	cur    *State
	old    *State
	specBody bool
	qdepth   int
}

func (env *Env) child() *Env {
	n := *env
	n.names = make(map[string]TV, len(env.names)+2)
	for k, v := range env.names {
		n.names[k] = v
	}
	return &n
}

func (env *Env) fail(f string, a ...interface{}) TV {
	env.fc.errf("contract expression: "+f, a...)
	return TV{"false", "Bool", types.Typ[types.Bool]}
}

// resolveType resolves a type written in Go syntax in the scope of the contract's package.
func (fc *FnCtx) resolveType(txt string, tpkg *types.Package) (types.Type, string) {
	txt = strings.TrimSpace(txt)
	switch txt {
	case "int":
		return types.Typ[types.Int], "Int"
	case "bool":
		return types.Typ[types.Bool], "Bool"
	case "string":
		return types.Typ[types.String], "String"
	case "real", "float64":
		return types.Typ[types.Float64], "Real"
	case "ref":
		return types.Typ[types.UnsafePointer], "Int"
	}
	if strings.HasPrefix(txt, "set[") && strings.HasSuffix(txt, "]") {
		_, ks := fc.resolveType(txt[4:len(txt)-1], tpkg)
		return nil, fmt.Sprintf("(Array %s Bool)", ks)
	}
	if strings.HasPrefix(txt, "gmap[") {
		// gmap[K]V : total ghost map (SMT array)
		depth, i := 0, 4
		for ; i < len(txt); i++ {
			if txt[i] == '[' {
				depth++
			} else if txt[i] == ']' {
				depth--
				if depth == 0 {
					break
				}
			}
		}
		kt, ks := fc.resolveType(txt[5:i], tpkg)
		vt, vs := fc.resolveType(txt[i+1:], tpkg)
		var gt types.Type
		if kt != nil && vt != nil {
			gt = types.NewMap(kt, vt) // only carries the element type; the sort says it is a ghost (total) map
		}
		return gt, fmt.Sprintf("(Array %s %s)", ks, vs)
	}
	e, err := goparser.ParseExpr(txt)
	if err != nil {
		fc.errf("cannot parse type %q: %v", txt, err)
		return types.Typ[types.Int], "Int"
	}
	T := fc.typeFromAST(e, tpkg)
	if T == nil {
		fc.errf("cannot resolve type %q", txt)
		return types.Typ[types.Int], "Int"
	}
	return T, fc.P.SortOf(T)
}

func (fc *FnCtx) typeFromAST(e ast.Expr, tpkg *types.Package) types.Type {
	switch e := e.(type) {
	case *ast.Ident:
		if o := types.Universe.Lookup(e.Name); o != nil {
			if tn, ok := o.(*types.TypeName); ok {
				return tn.Type()
			}
		}
		if tpkg != nil {
			if o := tpkg.Scope().Lookup(e.Name); o != nil {
				if tn, ok := o.(*types.TypeName); ok {
					return tn.Type()
				}
			}
		}
	case *ast.SelectorExpr:
		if id, ok := e.X.(*ast.Ident); ok {
			if p := fc.findPkg(id.Name, tpkg); p != nil {
				if o := p.Scope().Lookup(e.Sel.Name); o != nil {
					if tn, ok := o.(*types.TypeName); ok {
						return tn.Type()
					}
				}
			}
		}
	case *ast.StarExpr:
		if t := fc.typeFromAST(e.X, tpkg); t != nil {
			return types.NewPointer(t)
		}
	case *ast.ArrayType:
		if t := fc.typeFromAST(e.Elt, tpkg); t != nil {
			return types.NewSlice(t)
		}
	case *ast.MapType:
		k, v := fc.typeFromAST(e.Key, tpkg), fc.typeFromAST(e.Value, tpkg)
		if k != nil && v != nil {
			return types.NewMap(k, v)
		}
	case *ast.ParenExpr:
		return fc.typeFromAST(e.X, tpkg)
	case *ast.FuncType:
		return types.NewSignatureType(nil, nil, nil, nil, nil, false)
	case *ast.InterfaceType:
		return types.NewInterfaceType(nil, nil)
	}
	return nil
}

// findPkg finds an imported package by name (searching the import graph of tpkg, then all loaded packages).
func (fc *FnCtx) findPkg(name string, tpkg *types.Package) *types.Package {
	if tpkg != nil {
		if tpkg.Name() == name {
			return tpkg
		}
		// import aliases as written in the package's own files
		if p, ok := fc.eng.Pkgs[tpkg.Path()]; ok {
			for _, f := range p.Syntax {
				for _, is := range f.Imports {
					if is.Name != nil && is.Name.Name == name {
						path := strings.Trim(is.Path.Value, "\"")
						if ip, ok := p.Imports[path]; ok && ip.Types != nil {
							return ip.Types
						}
					}
				}
			}
		}
		// an import written without alias whose package name is `name` (wins over an aliased import of a same-named package)
		if p, ok := fc.eng.Pkgs[tpkg.Path()]; ok {
			for _, f := range p.Syntax {
				for _, is := range f.Imports {
					if is.Name == nil {
						path := strings.Trim(is.Path.Value, "\"")
						if ip, ok := p.Imports[path]; ok && ip.Types != nil && ip.Types.Name() == name {
							return ip.Types
						}
					}
				}
			}
		}
		for _, im := range tpkg.Imports() {
			if im.Name() == name {
				return im
			}
		}
		// import aliases: match by common aliases
		for _, im := range tpkg.Imports() {
			if pkgAlias(im.Path()) == name {
				return im
			}
		}
	}
	for _, p := range fc.eng.Pkgs {
		// go/packages import graph (types.Package.Imports() can be empty for packages checked from source)
		for path, ip := range p.Imports {
			if ip.Types != nil && (pkgAlias(path) == name) {
				return ip.Types
			}
		}
	}
	for _, p := range fc.eng.Pkgs {
		for path, ip := range p.Imports {
			if ip.Types != nil && ip.Types.Name() == name && tpkg != nil && p.Types == tpkg {
				_ = path
				return ip.Types
			}
		}
	}
	for _, p := range fc.eng.Pkgs {
		if p.Types.Name() == name || pkgAlias(p.PkgPath) == name {
			return p.Types
		}
		for _, im := range p.Types.Imports() {
			if im.Name() == name || pkgAlias(im.Path()) == name {
				return im
			}
		}
	}
	return nil
}

func pkgAlias(path string) string {
	switch path {
	case "github.com/kubewharf/kubegateway/pkg/apis/proxy/v1alpha1":
		return "proxyv1alpha1"
	case "k8s.io/apimachinery/pkg/apis/meta/v1":
		return "metav1"
	}
	return ""
}

func (env *Env) tr(e Expr) TV {
	fc := env.fc
	P := fc.P
	switch e := e.(type) {
	case *EInt:
		return TV{e.Val, "Int", types.Typ[types.Int]}
	case *EReal:
		return TV{e.Val, "Real", types.Typ[types.Float64]}
	case *EStr:
		return TV{smtString(e.Val), "String", types.Typ[types.String]}
	case *EBool:
		return TV{fmt.Sprint(e.Val), "Bool", types.Typ[types.Bool]}
	case *ENil:
		return TV{"0", "Int", types.Typ[types.UntypedNil]}
	case *EIdent:
		return env.ident(e.Name)
	case *EUnary:
		if e.Op == "&" {
			if sel, ok := e.X.(*ESel); ok {
				return env.addrOfField(sel)
			}
		}
		x := env.tr(e.X)
		switch e.Op {
		case "!":
			return TV{"(not " + x.T + ")", "Bool", types.Typ[types.Bool]}
		case "-":
			return TV{"(- " + x.T + ")", x.Sort, x.Go}
		case "&":
			return env.fail("& needs a field selection operand")
		case "*":
			if pt, ok := goUnder(x.Go).(*types.Pointer); ok {
				return TV{fc.loadHeapValue(env.cur, x.T, pt.Elem()), P.SortOf(pt.Elem()), pt.Elem()}
			}
			return env.fail("* of non-pointer")
		}
		return env.fail("unary %s", e.Op)
	case *EBinary:
		return env.binary(e)
	case *ECond:
		c, a, b := env.tr(e.C), env.tr(e.A), env.tr(e.B)
		a, b = env.unify(a, b)
		return TV{fmt.Sprintf("(ite %s %s %s)", c.T, a.T, b.T), a.Sort, a.Go}
	case *ESel:
		return env.sel(e)
	case *EIndex:
		x, i := env.tr(e.X), env.tr(e.I)
		return env.index(x, i)
	case *ESlice:
		x := env.tr(e.X)
		if x.Sort == "String" {
			lo := "0"
			if e.Lo != nil {
				lo = env.tr(e.Lo).T
			}
			hi := fmt.Sprintf("(str.len %s)", x.T)
			if e.Hi != nil {
				hi = env.tr(e.Hi).T
			}
			return TV{fmt.Sprintf("(str.substr %s %s (- %s %s))", x.T, lo, hi, lo), "String", x.Go}
		}
		if !strings.HasPrefix(x.Sort, "Seq_") {
			return env.fail("slice of %s", x.Sort)
		}
		t := x.T
		if e.Hi != nil {
			t = fmt.Sprintf("(take_%s %s %s)", x.Sort, t, env.tr(e.Hi).T)
		}
		if e.Lo != nil {
			t = fmt.Sprintf("(drop_%s %s %s)", x.Sort, t, env.tr(e.Lo).T)
		}
		return TV{t, x.Sort, x.Go}
	case *ECall:
		return env.call(e)
	case *EQuant:
		ch := env.child()
		ch.qdepth++
		var vs []string
		for _, v := range e.Vars {
			T, s := fc.resolveType(v.Type, env.tpkg)
			n := "q_" + mangle(v.Name)
			ch.names[v.Name] = TV{n, s, T}
			vs = append(vs, fmt.Sprintf("(%s %s)", n, s))
		}
		body := ch.tr(e.Body)
		q := "exists"
		if e.Forall {
			q = "forall"
		}
		if len(e.Triggers) > 0 {
			var pats []string
			for _, tg := range e.Triggers {
				var ts []string
				bad := false
				for _, t := range tg {
					tt := ch.tr(t).T
					if strings.Contains(tt, "(ite ") {
						bad = true // conditionals are not allowed in patterns
					}
					ts = append(ts, tt)
				}
				if !bad {
					pats = append(pats, ":pattern ("+strings.Join(ts, " ")+")")
				}
			}
			if len(pats) == 0 {
				return TV{fmt.Sprintf("(%s (%s) %s)", q, strings.Join(vs, " "), body.T), "Bool", types.Typ[types.Bool]}
			}
			return TV{fmt.Sprintf("(%s (%s) (! %s %s))", q, strings.Join(vs, " "), body.T, strings.Join(pats, " ")), "Bool", types.Typ[types.Bool]}
		}
		return TV{fmt.Sprintf("(%s (%s) %s)", q, strings.Join(vs, " "), body.T), "Bool", types.Typ[types.Bool]}
	}
	return env.fail("unsupported expression %T", e)
}

func goUnder(T types.Type) types.Type {
	if T == nil {
		return nil
	}
	return T.Underlying()
}

func (env *Env) unify(a, b TV) (TV, TV) {
	if a.Sort == "Real" && b.Sort == "Int" {
		b = TV{toReal(b.T), "Real", a.Go}
	} else if a.Sort == "Int" && b.Sort == "Real" {
		a = TV{toReal(a.T), "Real", b.Go}
	}
	if a.Go == nil || isUntypedNil(a.Go) {
		a.Go = b.Go
		if strings.HasPrefix(b.Sort, "Seq_") && a.T == "0" {
			a = TV{"empty_" + b.Sort, b.Sort, b.Go}
		}
	}
	if b.Go == nil || isUntypedNil(b.Go) {
		b.Go = a.Go
		if strings.HasPrefix(a.Sort, "Seq_") && b.T == "0" {
			b = TV{"empty_" + a.Sort, a.Sort, a.Go}
		}
	}
	return a, b
}

func isUntypedNil(T types.Type) bool {
	b, ok := T.(*types.Basic)
	return ok && b.Kind() == types.UntypedNil
}

func toReal(t string) string {
	if isDigits(t) {
		return t + ".0"
	}
	return "(to_real " + t + ")"
}

func isDigits(s string) bool {
	if s == "" {
		return false
	}
	for _, c := range s {
		if c < '0' || c > '9' {
			return false
		}
	}
	return true
}

func (env *Env) ident(name string) TV {
	fc := env.fc
	if tv, ok := env.names[name]; ok {
		return tv
	}
	if env.lookup != nil {
		if tv, ok := env.lookup(name, env.cur); ok {
			if os.Getenv("GOVC_DEBUG") != "" {
				fmt.Fprintf(os.Stderr, "resolve %s -> %s (%s)\n", name, tv.T, tv.Sort)
			}
			return tv
		}
	}
	if g, ok := fc.eng.Spec.Ghosts[name]; ok {
		key := "G:" + name
		gt, gs := fc.resolveType(g.Type, fc.pkgTypes(g.Pkg))
		if _, ok := fc.compSort[key]; !ok {
			fc.compDecl(key, gs)
		}
		return TV{fc.lookup(env.cur, key), fc.compSort[key], gt}
	}
	if c, ok := fc.eng.Spec.Consts[name]; ok {
		e, err := ParseExpr(c)
		if err != nil {
			return env.fail("const %s: %v", name, err)
		}
		return env.tr(e)
	}
	if sf, ok := fc.eng.Spec.Specs[name]; ok && len(sf.Params) == 0 {
		return env.call(&ECall{Fun: name})
	}
	// package-level Go constant or variable
	if env.tpkg != nil {
		if o := env.tpkg.Scope().Lookup(name); o != nil {
			return env.goObject(o)
		}
	}
	return env.fail("unknown identifier %q", name)
}

func (env *Env) goObject(o types.Object) TV {
	fc := env.fc
	switch o := o.(type) {
	case *types.Const:
		v := o.Val()
		switch v.Kind() {
		case constant.Bool:
			return TV{fmt.Sprint(constant.BoolVal(v)), "Bool", o.Type()}
		case constant.String:
			return TV{smtString(constant.StringVal(v)), "String", o.Type()}
		case constant.Int:
			i, _ := constant.Int64Val(v)
			if fc.P.SortOf(o.Type()) == "Real" {
				return TV{toReal(smtInt(i)), "Real", o.Type()}
			}
			return TV{smtInt(i), "Int", o.Type()}
		case constant.Float:
			return TV{realLit(v), "Real", o.Type()}
		}
	case *types.Var:
		// package-level variable
		if g := fc.eng.findGlobal(o); g != nil {
			k := fc.globalComp(g)
			T := g.Type().(*types.Pointer).Elem()
			return TV{fc.lookup(env.cur, k), fc.P.SortOf(T), T}
		}
		// variable of a dependency: immutable by assumption
		k := "K:" + o.Pkg().Path() + "." + o.Name()
		if _, ok := fc.compSort[k]; !ok {
			fc.compDecl(k, fc.P.SortOf(o.Type()))
		}
		return TV{fc.lookup(env.cur, k), fc.P.SortOf(o.Type()), o.Type()}
	}
	return env.fail("unsupported Go object %s", o)
}

func (env *Env) binary(e *EBinary) TV {
	B := types.Typ[types.Bool]
	switch e.Op {
	case "&&", "||", "==>", "<==>":
		x, y := env.tr(e.X), env.tr(e.Y)
		op := map[string]string{"&&": "and", "||": "or", "==>": "=>", "<==>": "="}[e.Op]
		return TV{fmt.Sprintf("(%s %s %s)", op, x.T, y.T), "Bool", B}
	case "in":
		k, m := env.tr(e.X), env.tr(e.Y)
		return env.inOp(k, m)
	}
	x, y := env.tr(e.X), env.tr(e.Y)
	x, y = env.unify(x, y)
	switch e.Op {
	case "===":
		return TV{fmt.Sprintf("(= %s %s)", x.T, y.T), "Bool", B}
	case "==", "!=":
		var t string
		if strings.HasPrefix(x.Sort, "Seq_") {
			if x.T == "empty_"+x.Sort && isNilExpr(e.X) {
				t = fmt.Sprintf("(isnil_%s %s)", x.Sort, y.T)
			} else if y.T == "empty_"+y.Sort && isNilExpr(e.Y) {
				t = fmt.Sprintf("(isnil_%s %s)", x.Sort, x.T)
			} else {
				t = fmt.Sprintf("(or (= %s %s) (eq_%s %s %s))", x.T, y.T, x.Sort, x.T, y.T)
			}
		} else {
			t = fmt.Sprintf("(= %s %s)", x.T, y.T)
		}
		if e.Op == "!=" {
			t = "(not " + t + ")"
		}
		return TV{t, "Bool", B}
	case "<", "<=", ">", ">=":
		if x.Sort == "String" {
			switch e.Op {
			case "<":
				return TV{fmt.Sprintf("(str.< %s %s)", x.T, y.T), "Bool", B}
			case "<=":
				return TV{fmt.Sprintf("(str.<= %s %s)", x.T, y.T), "Bool", B}
			case ">":
				return TV{fmt.Sprintf("(str.< %s %s)", y.T, x.T), "Bool", B}
			default:
				return TV{fmt.Sprintf("(str.<= %s %s)", y.T, x.T), "Bool", B}
			}
		}
		return TV{fmt.Sprintf("(%s %s %s)", e.Op, x.T, y.T), "Bool", B}
	case "+":
		if x.Sort == "String" {
			return TV{fmt.Sprintf("(str.++ %s %s)", x.T, y.T), "String", x.Go}
		}
		if strings.HasPrefix(x.Sort, "Seq_") {
			return TV{fmt.Sprintf("(cat_%s %s %s)", x.Sort, x.T, y.T), x.Sort, x.Go}
		}
		return TV{fmt.Sprintf("(+ %s %s)", x.T, y.T), x.Sort, x.Go}
	case "-", "*":
		return TV{fmt.Sprintf("(%s %s %s)", e.Op, x.T, y.T), x.Sort, x.Go}
	case "/":
		if x.Sort == "Real" {
			return TV{fmt.Sprintf("(/ %s %s)", x.T, y.T), "Real", x.Go}
		}
		env.fc.needDiv()
		return TV{fmt.Sprintf("(godiv %s %s)", x.T, y.T), "Int", x.Go}
	case "%":
		env.fc.needDiv()
		return TV{fmt.Sprintf("(gorem %s %s)", x.T, y.T), "Int", x.Go}
	}
	return env.fail("binary %s", e.Op)
}

func isNilExpr(e Expr) bool { _, ok := e.(*ENil); return ok }

func (env *Env) inOp(k, m TV) TV {
	fc := env.fc
	B := types.Typ[types.Bool]
	if strings.HasPrefix(m.Sort, "(Array ") && strings.HasSuffix(m.Sort, " Bool)") {
		return TV{fmt.Sprintf("(select %s %s)", m.T, k.T), "Bool", B}
	}
	if mt, ok := goUnder(m.Go).(*types.Map); ok && !strings.HasPrefix(m.Sort, "(Array ") {
		_, md, _, _ := fc.mapComps(mt)
		return TV{fmt.Sprintf("(and (not (= %s 0)) (select (select %s %s) %s))", m.T, fc.lookup(env.cur, md), m.T, k.T), "Bool", B}
	}
	if strings.HasPrefix(m.Sort, "Seq_") {
		return TV{fmt.Sprintf("(has_%s %s %s)", m.Sort, m.T, k.T), "Bool", B}
	}
	if strings.HasPrefix(m.Sort, "(Array ") && strings.HasSuffix(m.Sort, " Bool)") {
		return TV{fmt.Sprintf("(select %s %s)", m.T, k.T), "Bool", B}
	}
	return env.fail("'in' on %s", m.Sort)
}

func (env *Env) index(x, i TV) TV {
	fc := env.fc
	P := fc.P
	if strings.HasPrefix(x.Sort, "(Array ") {
		var et types.Type
		if mt, ok := goUnder(x.Go).(*types.Map); ok {
			et = mt.Elem()
		}
		return TV{fmt.Sprintf("(select %s %s)", x.T, i.T), arrayRange(x.Sort), et}
	}
	switch u := goUnder(x.Go).(type) {
	case *types.Slice:
		return TV{fmt.Sprintf("(at_%s %s %s)", x.Sort, x.T, i.T), P.SortOf(u.Elem()), u.Elem()}
	case *types.Array:
		return TV{fmt.Sprintf("(at_%s %s %s)", x.Sort, x.T, i.T), P.SortOf(u.Elem()), u.Elem()}
	case *types.Map:
		mv, md, _, _ := fc.mapComps(u)
		dom := fmt.Sprintf("(and (not (= %s 0)) (select (select %s %s) %s))", x.T, fc.lookup(env.cur, md), x.T, i.T)
		return TV{fmt.Sprintf("(ite %s (select (select %s %s) %s) %s)", dom, fc.lookup(env.cur, mv), x.T, i.T, P.ZeroOf(u.Elem())), P.SortOf(u.Elem()), u.Elem()}
	case *types.Basic:
		if x.Sort == "String" {
			return TV{fmt.Sprintf("(str.to_code (str.at %s %s))", x.T, i.T), "Int", types.Typ[types.Uint8]}
		}
	}
	if strings.HasPrefix(x.Sort, "Seq_") {
		return TV{fmt.Sprintf("(at_%s %s %s)", x.Sort, x.T, i.T), P.seqElem[x.Sort], nil}
	}
	if strings.HasPrefix(x.Sort, "(Array ") {
		return TV{fmt.Sprintf("(select %s %s)", x.T, i.T), arrayRange(x.Sort), nil}
	}
	return env.fail("index of %s", x.Sort)
}

// arrayRange returns V of "(Array K V)".
func arrayRange(s string) string {
	inner := strings.TrimSuffix(strings.TrimPrefix(s, "(Array "), ")")
	// skip K (one s-expr)
	depth := 0
	for i := 0; i < len(inner); i++ {
		switch inner[i] {
		case '(':
			depth++
		case ')':
			depth--
		case ' ':
			if depth == 0 {
				return inner[i+1:]
			}
		}
	}
	return "Int"
}

func arrayDomain(s string) string {
	inner := strings.TrimSuffix(strings.TrimPrefix(s, "(Array "), ")")
	depth := 0
	for i := 0; i < len(inner); i++ {
		switch inner[i] {
		case '(':
			depth++
		case ')':
			depth--
		case ' ':
			if depth == 0 {
				return inner[:i]
			}
		}
	}
	return "Int"
}

func (env *Env) sel(e *ESel) TV {
	fc := env.fc
	P := fc.P
	// qualified identifier pkg.Name
	if id, ok := e.X.(*EIdent); ok {
		if _, bound := env.names[id.Name]; !bound {
			isVar := false
			if env.lookup != nil {
				_, isVar = env.lookup(id.Name, env.cur)
			}
			if !isVar {
				if p := fc.findPkg(id.Name, env.tpkg); p != nil && id.Name != "" {
					if o := p.Scope().Lookup(e.Name); o != nil {
						sub := *env
						sub.tpkg = p
						return sub.goObject(o)
					}
				}
			}
		}
	}
	x := env.tr(e.X)
	if x.Go == nil {
		return env.fail("field %s of untyped value", e.Name)
	}
	// find field path (promotion through embedded structs)
	obj, path, _ := types.LookupFieldOrMethod(x.Go, true, nil, e.Name)
	if obj == nil && env.tpkg != nil {
		obj, path, _ = types.LookupFieldOrMethod(x.Go, true, env.tpkg, e.Name)
	}
	if obj == nil {
		// unexported field of another package: search by name
		obj, path = lookupFieldAnyPkg(x.Go, e.Name)
	}
	if _, isVar := obj.(*types.Var); obj == nil || !isVar {
		return env.fail("no field %s in %s", e.Name, x.Go)
	}
	cur := x
	for _, fi := range path {
		T := cur.Go
		if pt, ok := goUnder(T).(*types.Pointer); ok {
			st, ok := pt.Elem().Underlying().(*types.Struct)
			if !ok {
				return env.fail("field of pointer to non-struct")
			}
			k, fs := fc.fieldComp(pt.Elem(), fi)
			cur = TV{fmt.Sprintf("(select %s %s)", fc.lookup(env.cur, k), cur.T), fs, st.Field(fi).Type()}
			continue
		}
		st, ok := goUnder(T).(*types.Struct)
		if !ok {
			return env.fail("field of non-struct %s", T)
		}
		cur = TV{fmt.Sprintf("(%s_f%d %s)", P.SortOf(T), fi, cur.T), P.SortOf(st.Field(fi).Type()), st.Field(fi).Type()}
	}
	return cur
}

func lookupFieldAnyPkg(T types.Type, name string) (types.Object, []int) {
	if pt, ok := T.Underlying().(*types.Pointer); ok {
		T = pt.Elem()
	}
	st, ok := T.Underlying().(*types.Struct)
	if !ok {
		return nil, nil
	}
	for i := 0; i < st.NumFields(); i++ {
		if st.Field(i).Name() == name {
			return st.Field(i), []int{i}
		}
	}
	for i := 0; i < st.NumFields(); i++ {
		if st.Field(i).Embedded() {
			if o, p := lookupFieldAnyPkg(st.Field(i).Type(), name); o != nil {
				return o, append([]int{i}, p...)
			}
		}
	}
	return nil, nil
}

func (e *Engine) findGlobal(o *types.Var) *ssa.Global {
	if o.Pkg() == nil {
		return nil
	}
	if sp, ok := e.SSAPkgs[o.Pkg().Path()]; ok {
		if g, ok := sp.Members[o.Name()].(*ssa.Global); ok {
			return g
		}
	}
	return nil
}

// addrOfField: &x.f.g — the deterministic address term of a field reached from a pointer.
func (env *Env) addrOfField(e *ESel) TV {
	fc := env.fc
	var base TV
	if inner, ok := e.X.(*ESel); ok {
		// nested: is the inner selection a pointer-valued field (then load it) or an embedded struct (then take its address)?
		iv := env.tr(inner)
		if _, isPtr := goUnder(iv.Go).(*types.Pointer); isPtr {
			base = iv
		} else {
			a := env.addrOfField(inner)
			base = TV{a.T, "Int", types.NewPointer(iv.Go)}
		}
	} else {
		base = env.tr(e.X)
	}
	pt, ok := goUnder(base.Go).(*types.Pointer)
	if !ok {
		return env.fail("& of a field of a non-pointer")
	}
	_, path := lookupFieldAnyPkg(pt.Elem(), e.Name)
	if len(path) == 0 {
		return env.fail("no field %s", e.Name)
	}
	T := pt.Elem()
	t := base.T
	for _, fi := range path {
		st := T.Underlying().(*types.Struct)
		t = fc.fieldAddrTerm(fc.P.SortOf(T), fi, t)
		T = st.Field(fi).Type()
	}
	return TV{t, "Int", types.NewPointer(T)}
}

// trAssume translates a formula that is going to be ASSUMED: positive top-level existentials (also under &&) are
// skolemised into fresh constants, which the solvers handle far better than an asserted (exists ...).
func (env *Env) trAssume(e Expr) string {
	switch x := e.(type) {
	case *EBinary:
		if x.Op == "&&" {
			return fmt.Sprintf("(and %s %s)", env.trAssume(x.X), env.trAssume(x.Y))
		}
	case *EQuant:
		if !x.Forall {
			ch := env.child()
			for _, v := range x.Vars {
				T, s := env.fc.resolveType(v.Type, env.tpkg)
				c := env.fc.freshConst("sk_"+v.Name, s)
				ch.names[v.Name] = TV{c, s, T}
			}
			return ch.trAssume(x.Body)
		}
	}
	return env.tr(e).T
}
