package main

// SSA -> SMT translation of one function under contract (with inlined callees as nested frames).

import (
	"fmt"
	"go/ast"
	"go/constant"
	"go/token"
	"math"
	"strconv"
	"go/types"
	"sort"
	"strings"

	"golang.org/x/tools/go/ssa"
)

type Fact struct {
	Text string // full (assert ...) line(s)
	Tag  string // "" = always included; otherwise filterable: inv:<loop>:<label>:<stage>, post:<callee>:<label>
	Def  string // the symbol this fact is "about" (slicing): the fact is kept iff that symbol is relevant
}

type Obl struct {
	Func   string // pkg::Key
	Kind   string // ensures requires invariant-init invariant-preserved safety modifies lemma binding asis
	Label  string
	Site   string
	NFacts int
	Path   string
	Goal   string
	Using  []string
	Stage  int
	Loop   int
	Text   string // source text of the clause
	Expect string // "" normal
	Window int    // >0: control-flow facts only for blocks within this many CFG levels before the site (sound: drops hypotheses)
	Since  string // control-flow facts only for blocks at or after the source line containing this text
	blk    *ssa.BasicBlock
	fr     *frame
}

func (o *Obl) Name() string {
	return fmt.Sprintf("%s#%s:%s", o.Func, o.Kind, o.Label)
}

type epochNode struct {
	kind    int // 0 base, 1 havoc, 2 merge
	conds   []string
	parents []int
	memo    map[string]string
}

type State struct {
	comp  map[string]string
	epoch int
}

func (s *State) clone() *State {
	n := &State{comp: make(map[string]string, len(s.comp)), epoch: s.epoch}
	for k, v := range s.comp {
		n.comp[k] = v
	}
	return n
}

type TV struct {
	T    string
	Sort string
	Go   types.Type
}

// FnCtx: everything for one top-level function under verification.
type FnCtx struct {
	eng      *Engine
	rgMode    bool              // rely/guarantee pass: interference before every sync.Map step
	rgOnly    bool
	compLabel map[string]string // heap component -> obligation label (field names)
	top      *ssa.Function
	key      string
	contract *FuncContract
	P        *Prelude
	decls    []string
	facts    []Fact
	obls     []*Obl
	fresh    int
	compSort map[string]string
	epochs   []*epochNode
	errs     []string
	declared map[string]bool
	safety   bool
	pureMode bool
	depth    int
	safetyN  map[string]int
	specDone map[string]bool
	entry    *State
	abstractions map[string]bool
	arrayElems   map[string][]string
	faCount      int
	pfUsed       map[string]bool
	mkArgs       map[string][]string
	nPreFacts    int
	topFr        *frame // frame of the function under verification (VerifyFunc)
}

type deferred struct {
	call  *ssa.CallCommon
	guard string
	args  []string
	blk   *ssa.BasicBlock
	instr *ssa.Defer
}

// addr: symbolic address
type addr struct {
	kind  int // 1 local component, 2 heap ref, 3 sequence element (read-only snapshot), 4 global
	key   string
	ref   string
	T     types.Type // type of the object at base (local: alloc elem; heap: pointee)
	seq   string     // kind 3: sequence term
	seqT  types.Type
	path  []pathEl
	glob  *ssa.Global
}

type pathEl struct {
	field int
	index string
	isIdx bool
}

type frame struct {
	fc      *FnCtx
	fn      *ssa.Function
	iterated string // SMT const naming the collection an iterator-body closure is called for
	prefix  string
	vals    map[ssa.Value]string
	addrs   map[ssa.Value]*addr
	reach   map[*ssa.BasicBlock]string
	edge    map[[2]int]string
	back    map[[2]int]bool
	headers []*ssa.BasicBlock
	ordinal map[*ssa.BasicBlock]int
	loopBlocks map[*ssa.BasicBlock]map[*ssa.BasicBlock]bool
	exit    map[*ssa.BasicBlock]*State
	entrySt map[*ssa.BasicBlock]*State
	defers  []*deferred
	entryState *State
	entryReach string
	contract *FuncContract
	inlined bool
	rets    []retSite
	closures map[ssa.Value]*ssa.MakeClosure
	unescaped map[*ssa.Alloc]bool
	noUndef   bool
	nonAllocWrites map[string]bool
	funcFreshWrites map[string]bool
	effectsOnly bool
	loadedFrom map[ssa.Value]*loadedFrom
	loopEntry  map[int]*State
	idom    map[*ssa.BasicBlock]*ssa.BasicBlock
	paramTV map[string]TV
}

type loadedFrom struct {
	a    *addr
	term string
}

type retSite struct {
	reach   string
	results []string
	state   *State
	blk     *ssa.BasicBlock
}

func (fc *FnCtx) errf(f string, a ...interface{}) {
	fc.errs = append(fc.errs, fmt.Sprintf(f, a...))
}

func (fc *FnCtx) abstract(f string, a ...interface{}) {
	if fc.abstractions == nil {
		fc.abstractions = map[string]bool{}
	}
	fc.abstractions[fmt.Sprintf(f, a...)] = true
}

func (fc *FnCtx) declare(name, sort string) string {
	if !fc.declared[name] {
		fc.declared[name] = true
		fc.decls = append(fc.decls, fmt.Sprintf("(declare-fun %s () %s)", name, sort))
	}
	return name
}

func (fc *FnCtx) freshConst(prefix, sort string) string {
	fc.fresh++
	return fc.declare(fmt.Sprintf("%s_%d", mangle(prefix), fc.fresh), sort)
}

func (fc *FnCtx) fact(tag, f string, a ...interface{}) {
	fc.facts = append(fc.facts, Fact{Text: "(assert " + fmt.Sprintf(f, a...) + ")", Tag: tag})
}

// ---------- state / components ----------

func isHeapKey(k string) bool {
	return strings.HasPrefix(k, "SM:") || strings.HasPrefix(k, "H:") || strings.HasPrefix(k, "C:") || strings.HasPrefix(k, "MV:") || strings.HasPrefix(k, "MD:") || strings.HasPrefix(k, "X:")
}

func (fc *FnCtx) compDecl(key, sort string) {
	if s, ok := fc.compSort[key]; ok && s != sort {
		fc.errf("component %s used with sorts %s and %s", key, s, sort)
	}
	fc.compSort[key] = sort
}

func (fc *FnCtx) lookup(st *State, key string) string {
	if t, ok := st.comp[key]; ok {
		return t
	}
	if isHeapKey(key) {
		return fc.epochLookup(st.epoch, key)
	}
	// ghost / others: base constant
	return fc.declare("g0_"+mangle(key), fc.compSort[key])
}

func (fc *FnCtx) epochLookup(e int, key string) string {
	n := fc.epochs[e]
	if t, ok := n.memo[key]; ok {
		return t
	}
	var t string
	switch n.kind {
	case 0:
		t = fc.declare("h0_"+mangle(key), fc.compSort[key])
	case 1:
		t = fc.declare(fmt.Sprintf("h%d_%s", e, mangle(key)), fc.compSort[key])
	case 2:
		var ts []string
		same := true
		for _, p := range n.parents {
			pt := fc.epochLookup(p, key)
			if len(ts) > 0 && pt != ts[0] {
				same = false
			}
			ts = append(ts, pt)
		}
		if same {
			t = ts[0]
		} else {
			t = fc.declare(fmt.Sprintf("h%d_%s", e, mangle(key)), fc.compSort[key])
			fc.fact("", "(= %s %s)", t, iteChain(n.conds, ts))
		}
	}
	n.memo[key] = t
	return t
}

func iteChain(conds, ts []string) string {
	term := ts[len(ts)-1]
	for i := len(ts) - 2; i >= 0; i-- {
		if ts[i] == term {
			continue
		}
		term = fmt.Sprintf("(ite %s %s %s)", conds[i], ts[i], term)
	}
	return term
}

func (fc *FnCtx) newEpoch(kind int, conds []string, parents []int) int {
	fc.epochs = append(fc.epochs, &epochNode{kind: kind, conds: conds, parents: parents, memo: map[string]string{}})
	return len(fc.epochs) - 1
}

// havocAll: unknown effects on the heap (not locals, not ghost).
func (fc *FnCtx) havocAll(st *State) {
	for k := range st.comp {
		if isHeapKey(k) {
			delete(st.comp, k)
		}
	}
	st.epoch = fc.newEpoch(1, nil, []int{st.epoch})
	old := st.comp["TOP"]
	nt := fc.freshConst("top", "Int")
	fc.fact("", "(>= %s %s)", nt, old)
	st.comp["TOP"] = nt
}

func (fc *FnCtx) mergeStates(conds []string, sts []*State, tag string) *State {
	if len(sts) == 1 {
		return sts[0].clone()
	}
	out := &State{comp: map[string]string{}}
	keys := map[string]bool{}
	for _, s := range sts {
		for k := range s.comp {
			keys[k] = true
		}
	}
	sameEpoch := true
	for _, s := range sts {
		if s.epoch != sts[0].epoch {
			sameEpoch = false
		}
	}
	var ks []string
	for k := range keys {
		ks = append(ks, k)
	}
	sort.Strings(ks)
	for _, k := range ks {
		var ts, cs []string
		for i, s := range sts {
			if t, ok := s.comp[k]; ok {
				ts = append(ts, t)
				cs = append(cs, conds[i])
			} else if isHeapKey(k) || strings.HasPrefix(k, "G:") {
				ts = append(ts, fc.lookup(s, k))
				cs = append(cs, conds[i])
			}
		}
		same := true
		for _, t := range ts {
			if t != ts[0] {
				same = false
			}
		}
		if same {
			out.comp[k] = ts[0]
			continue
		}
		n := fc.freshConst("m_"+tag+"_"+k, fc.compSort[k])
		fc.fact("", "(= %s %s)", n, iteChain(cs, ts))
		out.comp[k] = n
	}
	if sameEpoch {
		out.epoch = sts[0].epoch
	} else {
		var ps []int
		for _, s := range sts {
			ps = append(ps, s.epoch)
		}
		out.epoch = fc.newEpoch(2, conds, ps)
	}
	return out
}

// ---------- heap component helpers ----------

func (fc *FnCtx) fieldComp(structT types.Type, field int) (key string, fsort string) {
	st := structT.Underlying().(*types.Struct)
	ss := fc.P.SortOf(structT)
	fsort = fc.P.SortOf(st.Field(field).Type())
	key = fmt.Sprintf("H:%s:%d", ss, field)
	fc.compDecl(key, fmt.Sprintf("(Array Int %s)", fsort))
	if fc.compLabel == nil {
		fc.compLabel = map[string]string{}
	}
	// obligation names use the field's name, not its index (adding a field must not rename obligations)
	fc.compLabel[key] = mangle(fmt.Sprintf("H:%s:%s", ss, st.Field(field).Name()))
	return
}

func (fc *FnCtx) cellComp(T types.Type) string {
	s := fc.P.SortOf(T)
	key := "C:" + s
	fc.compDecl(key, fmt.Sprintf("(Array Int %s)", s))
	return key
}

func (fc *FnCtx) mapComps(mt *types.Map) (mv, md, ks, vs string) {
	ks, vs = fc.P.SortOf(mt.Key()), fc.P.SortOf(mt.Elem())
	mv = fmt.Sprintf("MV:%s:%s", ks, vs)
	md = fmt.Sprintf("MD:%s:%s", ks, vs)
	_, seen := fc.compSort[mv]
	fc.compDecl(mv, fmt.Sprintf("(Array Int (Array %s %s))", ks, vs))
	fc.compDecl(md, fmt.Sprintf("(Array Int (Array %s Bool))", ks))
	if !seen && fc.entry != nil {
		switch mt.Elem().Underlying().(type) {
		case *types.Pointer, *types.Map:
			// heap well-formedness at entry: references stored in maps were allocated before the function started
			v0 := fc.lookup(fc.entry, mv)
			fc.fact("", "(forall ((m Int) (k %s)) (! (and (>= (select (select %s m) k) 0) (< (select (select %s m) k) %s)) :pattern ((select (select %s m) k))))", ks, v0, v0, fc.entry.comp["TOP"], v0)
		}
	}
	return
}

// readPath reads through a pure value.
func (fc *FnCtx) readPath(term string, T types.Type, path []pathEl) (string, types.Type) {
	for _, pe := range path {
		if pe.isIdx {
			var el types.Type
			switch u := T.Underlying().(type) {
			case *types.Array:
				el = u.Elem()
			case *types.Slice:
				el = u.Elem()
			default:
				fc.errf("index into %s", T)
				return term, T
			}
			term = fmt.Sprintf("(at_%s %s %s)", fc.P.SeqSort(fc.P.SortOf(el)), term, pe.index)
			T = el
		} else {
			st, ok := T.Underlying().(*types.Struct)
			if !ok {
				fc.errf("field of non-struct %s", T)
				return term, T
			}
			if known := fc.structArgs(term, T); known != nil {
				term = known[pe.field]
			} else {
				term = fmt.Sprintf("(%s_f%d %s)", fc.P.SortOf(T), pe.field, term)
			}
			T = st.Field(pe.field).Type()
		}
	}
	return term, T
}

func (fc *FnCtx) arrayLit(s string, elems []string) string {
	t := "emptynn_" + s
	for _, e := range elems {
		t = fmt.Sprintf("(build_%s %s %s)", s, t, e)
	}
	if fc.arrayElems == nil {
		fc.arrayElems = map[string][]string{}
	}
	fc.arrayElems[t] = elems
	return t
}

func (fc *FnCtx) writePath(term string, T types.Type, path []pathEl, v string) string {
	if len(path) == 0 {
		return v
	}
	pe := path[0]
	if pe.isIdx {
		var el types.Type
		switch u := T.Underlying().(type) {
		case *types.Array:
			el = u.Elem()
		case *types.Slice:
			el = u.Elem()
		}
		s := fc.P.SeqSort(fc.P.SortOf(el))
		if elems, ok := fc.arrayElems[term]; ok && isDigits(pe.index) {
			// array literal with known elements: rebuild the literal instead of a functional update
			var i int
			fmt.Sscan(pe.index, &i)
			if i < len(elems) {
				ne := append([]string{}, elems...)
				ne[i] = fc.writePath(elems[i], el, path[1:], v)
				return fc.arrayLit(s, ne)
			}
		}
		inner := fc.writePath(fmt.Sprintf("(at_%s %s %s)", s, term, pe.index), el, path[1:], v)
		return fmt.Sprintf("(upd_%s %s %s %s)", s, term, pe.index, inner)
	}
	st := T.Underlying().(*types.Struct)
	sname := fc.P.SortOf(T)
	var args []string
	known := fc.structArgs(term, T)
	for i := 0; i < st.NumFields(); i++ {
		cur := fmt.Sprintf("(%s_f%d %s)", sname, i, term)
		if known != nil {
			cur = known[i]
		}
		if i == pe.field {
			cur = fc.writePath(cur, st.Field(i).Type(), path[1:], v)
		}
		args = append(args, cur)
	}
	return fc.mkStruct(sname, args)
}

// mkStruct builds a constructor application and remembers its arguments, so that later field reads and updates do not
// nest accessor terms (which would grow exponentially with the number of field stores).
func (fc *FnCtx) mkStruct(sname string, args []string) string {
	t := fmt.Sprintf("(mk_%s %s)", sname, strings.Join(args, " "))
	if len(args) == 0 {
		t = "mk_" + sname
	}
	if fc.mkArgs == nil {
		fc.mkArgs = map[string][]string{}
	}
	fc.mkArgs[t] = args
	return t
}

func (fc *FnCtx) structArgs(term string, T types.Type) []string {
	if a, ok := fc.mkArgs[term]; ok {
		return a
	}
	// zero values are syntactic constructor applications too
	if st, ok := T.Underlying().(*types.Struct); ok && term == fc.P.ZeroOf(T) && st.NumFields() > 0 {
		var args []string
		for i := 0; i < st.NumFields(); i++ {
			args = append(args, fc.P.ZeroOf(st.Field(i).Type()))
		}
		fc.mkStruct(fc.P.SortOf(T), args)
		return args
	}
	return nil
}

// loadHeapStruct builds the struct value at ref from field components.
func (fc *FnCtx) loadHeapValue(st *State, ref string, T types.Type) string {
	if s, ok := T.Underlying().(*types.Struct); ok {
		sname := fc.P.SortOf(T)
		if s.NumFields() == 0 {
			return "mk_" + sname
		}
		var args []string
		for i := 0; i < s.NumFields(); i++ {
			k, _ := fc.fieldComp(T, i)
			args = append(args, fmt.Sprintf("(select %s %s)", fc.lookup(st, k), ref))
		}
		return fmt.Sprintf("(mk_%s %s)", sname, strings.Join(args, " "))
	}
	k := fc.cellComp(T)
	return fmt.Sprintf("(select %s %s)", fc.lookup(st, k), ref)
}

func (fc *FnCtx) storeHeapValue(st *State, ref string, T types.Type, v string) {
	if s, ok := T.Underlying().(*types.Struct); ok {
		sname := fc.P.SortOf(T)
		for i := 0; i < s.NumFields(); i++ {
			k, _ := fc.fieldComp(T, i)
			st.comp[k] = fmt.Sprintf("(store %s %s (%s_f%d %s))", fc.lookup(st, k), ref, sname, i, v)
		}
		return
	}
	k := fc.cellComp(T)
	st.comp[k] = fmt.Sprintf("(store %s %s %s)", fc.lookup(st, k), ref, v)
}

func (fc *FnCtx) load(st *State, a *addr) (string, types.Type) {
	switch a.kind {
	case 1:
		return fc.readPath(fc.lookup(st, a.key), a.T, a.path)
	case 2:
		if len(a.path) > 0 && !a.path[0].isIdx {
			if _, ok := a.T.Underlying().(*types.Struct); ok {
				k, _ := fc.fieldComp(a.T, a.path[0].field)
				ft := a.T.Underlying().(*types.Struct).Field(a.path[0].field).Type()
				return fc.readPath(fmt.Sprintf("(select %s %s)", fc.lookup(st, k), a.ref), ft, a.path[1:])
			}
		}
		return fc.readPath(fc.loadHeapValue(st, a.ref, a.T), a.T, a.path)
	case 3:
		return fc.readPath(a.seq, a.seqT, a.path)
	case 4:
		k := fc.globalComp(a.glob)
		return fc.readPath(fc.lookup(st, k), a.T, a.path)
	}
	fc.errf("load from unknown address")
	return "0", types.Typ[types.Int]
}

func (fc *FnCtx) globalComp(g *ssa.Global) string {
	T := g.Type().(*types.Pointer).Elem()
	path := ""
	if g.Pkg != nil {
		path = g.Pkg.Pkg.Path()
	}
	k := "X:" + path + "." + g.Name()
	if !fc.eng.mutGlobals[g] {
		k = "K:" + path + "." + g.Name() // immutable global: not subject to havoc
	}
	if _, ok := fc.compSort[k]; !ok {
		fc.compDecl(k, fc.P.SortOf(T))
		if strings.HasPrefix(k, "K:") && types.Identical(T, types.Universe.Lookup("error").Type()) {
			c := fc.declare("g0_"+mangle(k), fc.P.SortOf(T))
			fc.fact("", "(not (= %s 0))", c)
		}
		if strings.HasPrefix(k, "K:") {
			// a package-level variable that is only ever assigned one constant in its initialiser holds that constant
			if c := fc.eng.globalInit[g]; c != nil && c.Value != nil {
				cst := fc.declare("g0_"+mangle(k), fc.P.SortOf(T))
				fc.fact("", "(= %s %s)", cst, fc.constTerm(c))
			}
		}
	}
	return k
}

func (fc *FnCtx) store(st *State, a *addr, v string) {
	switch a.kind {
	case 1:
		nt := fc.writePath(fc.lookup(st, a.key), a.T, a.path, v)
		if len(nt) > 1500 {
			c := fc.freshConst("loc_"+a.key, fc.compSort[a.key])
			fc.fact("", "(= %s %s)", c, nt)
			if args, ok := fc.mkArgs[nt]; ok {
				fc.mkArgs[c] = args
			}
			if el, ok := fc.arrayElems[nt]; ok {
				fc.arrayElems[c] = el
			}
			nt = c
		}
		st.comp[a.key] = nt
	case 2:
		if len(a.path) > 0 && !a.path[0].isIdx {
			if s, ok := a.T.Underlying().(*types.Struct); ok {
				k, _ := fc.fieldComp(a.T, a.path[0].field)
				ft := s.Field(a.path[0].field).Type()
				cur := fmt.Sprintf("(select %s %s)", fc.lookup(st, k), a.ref)
				st.comp[k] = fmt.Sprintf("(store %s %s %s)", fc.lookup(st, k), a.ref, fc.writePath(cur, ft, a.path[1:], v))
				return
			}
		}
		cur := fc.loadHeapValue(st, a.ref, a.T)
		fc.storeHeapValue(st, a.ref, a.T, fc.writePath(cur, a.T, a.path, v))
	case 3:
		fc.errf("store through a slice element is outside the supported subset")
	case 4:
		k := fc.globalComp(a.glob)
		st.comp[k] = fc.writePath(fc.lookup(st, k), a.T, a.path, v)
	}
}

// ---------- frame setup ----------

func newFrame(fc *FnCtx, fn *ssa.Function, prefix string) *frame {
	fr := &frame{fc: fc, fn: fn, prefix: prefix, vals: map[ssa.Value]string{}, addrs: map[ssa.Value]*addr{}, reach: map[*ssa.BasicBlock]string{},
		edge: map[[2]int]string{}, back: map[[2]int]bool{}, ordinal: map[*ssa.BasicBlock]int{}, loopBlocks: map[*ssa.BasicBlock]map[*ssa.BasicBlock]bool{},
		exit: map[*ssa.BasicBlock]*State{}, entrySt: map[*ssa.BasicBlock]*State{}, closures: map[ssa.Value]*ssa.MakeClosure{}, paramTV: map[string]TV{}, unescaped: map[*ssa.Alloc]bool{}, loadedFrom: map[ssa.Value]*loadedFrom{}, loopEntry: map[int]*State{}}
	fr.analyzeLoops()
	return fr
}

func (fr *frame) analyzeLoops() {
	fn := fr.fn
	state := map[*ssa.BasicBlock]int{}
	var dfs func(b *ssa.BasicBlock)
	dfs = func(b *ssa.BasicBlock) {
		state[b] = 1
		for _, s := range b.Succs {
			if state[s] == 1 {
				fr.back[[2]int{b.Index, s.Index}] = true
			} else if state[s] == 0 {
				dfs(s)
			}
		}
		state[b] = 2
	}
	dfs(fn.Blocks[0])
	isHeader := map[*ssa.BasicBlock]bool{}
	for e := range fr.back {
		isHeader[fn.Blocks[e[1]]] = true
	}
	for _, b := range fn.Blocks {
		if isHeader[b] {
			fr.headers = append(fr.headers, b)
		}
	}
	sort.Slice(fr.headers, func(i, j int) bool { return fr.headers[i].Index < fr.headers[j].Index })
	for i, h := range fr.headers {
		fr.ordinal[h] = i
		// natural loop body: blocks that can reach a back-edge source without passing through h
		body := map[*ssa.BasicBlock]bool{h: true}
		var stack []*ssa.BasicBlock
		for e := range fr.back {
			if e[1] == h.Index {
				src := fn.Blocks[e[0]]
				if !body[src] {
					body[src] = true
					stack = append(stack, src)
				}
			}
		}
		for len(stack) > 0 {
			b := stack[len(stack)-1]
			stack = stack[:len(stack)-1]
			for _, p := range b.Preds {
				if !body[p] {
					body[p] = true
					stack = append(stack, p)
				}
			}
		}
		fr.loopBlocks[h] = body
	}
	fr.idom = map[*ssa.BasicBlock]*ssa.BasicBlock{}
	for _, b := range fn.Blocks {
		fr.idom[b] = b.Idom()
	}
}

func (fr *frame) topoOrder() []*ssa.BasicBlock {
	var order []*ssa.BasicBlock
	seen := map[*ssa.BasicBlock]bool{}
	var topo func(b *ssa.BasicBlock)
	topo = func(b *ssa.BasicBlock) {
		if seen[b] {
			return
		}
		seen[b] = true
		for _, s := range b.Succs {
			if !fr.back[[2]int{b.Index, s.Index}] {
				topo(s)
			}
		}
		order = append(order, b)
	}
	topo(fr.fn.Blocks[0])
	for i, j := 0, len(order)-1; i < j; i, j = i+1, j-1 {
		order[i], order[j] = order[j], order[i]
	}
	return order
}

func (fr *frame) name(v ssa.Value) string {
	return fr.prefix + "v_" + mangle(v.Name())
}

func (fr *frame) declareVal(v ssa.Value) string {
	n := fr.fc.declare(fr.name(v), fr.fc.P.SortOf(v.Type()))
	fr.vals[v] = n
	return n
}

func (fr *frame) define(v ssa.Value, term string) string {
	n := fr.declareVal(v)
	fr.fc.fact("", "(= %s %s)", n, term)
	return n
}

func (fr *frame) rangeAssume(term string, T types.Type) {
	if bits, signed, ok := intInfo(T); ok {
		switch {
		case bits < 64 && signed:
			fr.fc.fact("", "(and (<= (- %d) %s) (<= %s %d))", int64(1)<<(bits-1), term, term, int64(1)<<(bits-1)-1)
		case bits < 64:
			fr.fc.fact("", "(and (<= 0 %s) (<= %s %d))", term, term, int64(1)<<bits-1)
		case !signed:
			fr.fc.fact("", "(<= 0 %s)", term)
		}
	}
}

func (fr *frame) val(v ssa.Value) string {
	fc := fr.fc
	switch c := v.(type) {
	case *ssa.Const:
		return fc.constTerm(c)
	case *ssa.Function:
		n := "fn_" + mangle(c.String())
		fc.declare(n, "Int")
		fc.P.Declare("fnnz_"+n, "")
		if !fc.declared["nz_"+n] {
			fc.declared["nz_"+n] = true
			fc.fact("", "(not (= %s 0))", n)
		}
		return n
	case *ssa.Global:
		// address of a global used as a value
		n := "gaddr_" + mangle(c.String())
		fc.declare(n, "Int")
		return n
	case *ssa.Builtin:
		return "0"
	}
	if n, ok := fr.vals[v]; ok {
		return n
	}
	if a, ok := fr.addrs[v]; ok {
		// an address used as a value: heap pointers have a ref; materialise others
		return fr.addrAsValue(v, a)
	}
	fc.errf("%s: no value for %s = %s (%T)", fr.fn.Name(), v.Name(), v.String(), v)
	return fr.declareVal(v)
}

func (fc *FnCtx) constTerm(c *ssa.Const) string {
	if c.Value == nil {
		switch u := c.Type().Underlying().(type) {
		case *types.Slice:
			return "empty_" + fc.P.SeqSort(fc.P.SortOf(u.Elem()))
		case *types.Struct, *types.Array:
			return fc.P.ZeroOf(c.Type())
		case *types.Basic:
			return fc.P.ZeroOf(c.Type())
		}
		return "0"
	}
	switch c.Value.Kind() {
	case constant.Bool:
		return fmt.Sprint(constant.BoolVal(c.Value))
	case constant.Int:
		if b, ok := c.Type().Underlying().(*types.Basic); ok && b.Info()&types.IsFloat != 0 {
			return realLit(c.Value)
		}
		if i, ok := constant.Int64Val(c.Value); ok {
			return smtInt(i)
		}
		s := c.Value.ExactString()
		if strings.HasPrefix(s, "-") {
			return "(- " + s[1:] + ")"
		}
		return s
	case constant.Float:
		if b, ok := c.Type().Underlying().(*types.Basic); ok && b.Info()&types.IsInteger != 0 {
			i, _ := constant.Int64Val(constant.ToInt(c.Value))
			return smtInt(i)
		}
		return realLit(c.Value)
	case constant.String:
		return smtString(constant.StringVal(c.Value))
	}
	fc.errf("unsupported constant %s", c)
	return "0"
}

func realLit(v constant.Value) string {
	// floating point is treated as mathematical reals: a float64 constant denotes its shortest round-trip decimal
	// (0.002 means 1/500, not the nearest binary fraction)
	if f, _ := constant.Float64Val(v); !math.IsInf(f, 0) && !math.IsNaN(f) {
		if dv := constant.MakeFromLiteral(strconv.FormatFloat(f, 'g', -1, 64), token.FLOAT, 0); dv.Kind() != constant.Unknown {
			v = dv
		}
	}
	n, d := constant.Num(v), constant.Denom(v)
	ns, ds := n.ExactString(), d.ExactString()
	neg := strings.HasPrefix(ns, "-")
	ns = strings.TrimPrefix(ns, "-")
	t := fmt.Sprintf("(/ %s.0 %s.0)", ns, ds)
	if ds == "1" {
		t = ns + ".0"
	}
	if neg {
		t = "(- " + t + ")"
	}
	return t
}

// fieldAddrTerm: deterministic address of field i of the struct (sort ss) located at base.
func (fc *FnCtx) fieldAddrTerm(ss string, i int, base string) string {
	name := fmt.Sprintf("fa_%s_%d", ss, i)
	if !fc.P.done["decl:"+name] {
		fc.P.Declare("fakind", "(declare-fun fakind (Int) Int)")
		fc.faCount++
		fc.P.Declare("faowner", "(declare-fun faowner (Int) Int)")
		fc.P.Declare(name, fmt.Sprintf("(declare-fun %s (Int) Int)\n(declare-fun inv_%s (Int) Int)\n(assert (forall ((r Int)) (! (and (= (inv_%s (%s r)) r) (= (faowner (%s r)) r) (= (fakind (%s r)) %d) (> (%s r) 0)) :pattern ((%s r)))))", name, name, name, name, name, name, int(hashString(name)%1000000)+1, name, name))
	}
	return fmt.Sprintf("(%s %s)", name, base)
}

func (fc *FnCtx) elemAddrTerm(base, idx string) string {
	fc.P.Declare("ea_elem", "(declare-fun ea_elem (Int Int) Int)\n(assert (forall ((r Int) (i Int)) (! (> (ea_elem r i) 0) :pattern ((ea_elem r i)))))")
	return fmt.Sprintf("(ea_elem %s %s)", base, idx)
}

// addrTerm: the pointer value denoting a symbolic address.
func (fc *FnCtx) addrTerm(a *addr) (string, bool) {
	var base string
	T := a.T
	switch a.kind {
	case 2:
		base = a.ref
	case 3:
		s := fc.P.SortOf(a.seqT)
		name := "seqaddr_" + s
		fc.P.Declare(name, fmt.Sprintf("(declare-fun %s (%s) Int)", name, s))
		base = fmt.Sprintf("(%s %s)", name, a.seq)
		T = a.seqT
	case 4:
		base = "gaddr_" + mangle(a.glob.String())
		fc.declare(base, "Int")
	default:
		return "", false
	}
	for _, pe := range a.path {
		if pe.isIdx {
			base = fc.elemAddrTerm(base, pe.index)
			switch u := T.Underlying().(type) {
			case *types.Array:
				T = u.Elem()
			case *types.Slice:
				T = u.Elem()
			}
			continue
		}
		st, ok := T.Underlying().(*types.Struct)
		if !ok {
			return "", false
		}
		base = fc.fieldAddrTerm(fc.P.SortOf(T), pe.field, base)
		T = st.Field(pe.field).Type()
	}
	return base, true
}

// addrAsValue: pointer value for a symbolic address (needed when an interior pointer escapes into a call or a return).
func (fr *frame) addrAsValue(v ssa.Value, a *addr) string {
	fc := fr.fc
	if a.kind == 2 && len(a.path) == 0 {
		return a.ref
	}
	if n, ok := fr.vals[v]; ok {
		return n
	}
	if t, ok := fc.addrTerm(a); ok {
		return t
	}
	// address of a local: an opaque non-nil reference
	n := fc.declare(fr.name(v), "Int")
	fr.vals[v] = n
	fc.fact("", "(> %s 0)", n)
	return n
}

// materialize: make the pointer v (an interior / local address) usable by a callee that only reads through it:
// the heap at that reference holds a snapshot of the designated value.
func (fr *frame) materialize(st *State, v ssa.Value) string {
	fc := fr.fc
	a, ok := fr.addrs[v]
	if !ok || (a.kind == 2 && len(a.path) == 0) {
		return fr.val(v)
	}
	ref := fr.addrAsValue(v, a)
	val, T := fc.load(st, a)
	fc.fact("", "(< %s %s)", ref, st.comp["TOP"])
	if s, ok := T.Underlying().(*types.Struct); ok {
		sname := fc.P.SortOf(T)
		for i := 0; i < s.NumFields(); i++ {
			k, _ := fc.fieldComp(T, i)
			fc.fact("", "(= (select %s %s) (%s_f%d %s))", fc.lookup(st, k), ref, sname, i, val)
		}
	} else {
		k := fc.cellComp(T)
		fc.fact("", "(= (select %s %s) %s)", fc.lookup(st, k), ref, val)
	}
	fc.abstract("interior pointers passed to callees are read-only snapshots")
	return ref
}

// ---------- name resolution for contract expressions ----------

// resolveName finds the SSA value (or address) holding source variable `name` at the start of block b
// (atEnd: at the end of b). phiSub substitutes header phis (for invariant checks on incoming edges).
func (fr *frame) resolveName(name string, b *ssa.BasicBlock, atEnd bool, st *State, phiSub map[*ssa.Phi]ssa.Value) (TV, bool) {
	fc := fr.fc
	mk := func(v ssa.Value) (TV, bool) {
		return TV{fr.val(v), fc.P.SortOf(v.Type()), v.Type()}, true
	}
	scan := func(blk *ssa.BasicBlock, whole bool) (TV, bool) {
		// phis first (they are at block start)
		if !whole {
			for _, in := range blk.Instrs {
				phi, ok := in.(*ssa.Phi)
				if !ok {
					break
				}
				if phi.Comment == name {
					if phiSub != nil {
						if s, ok := phiSub[phi]; ok {
							return mk(s)
						}
					}
					return mk(phi)
				}
			}
			return TV{}, false
		}
		var zeroRef ssa.Value
		for i := len(blk.Instrs) - 1; i >= 0; i-- {
			switch in := blk.Instrs[i].(type) {
			case *ssa.DebugRef:
				if id, ok := in.Expr.(*ast.Ident); ok && id.Name == name {
					// the selector identifier of x.f is an *ast.Ident too: a field is not a variable of that name
					if v, isVar := in.Object().(*types.Var); isVar && v.IsField() {
						continue
					}
					if in.IsAddr {
						if a, ok := fr.addrs[in.X]; ok {
							t, T := fc.load(st, a)
							return TV{t, fc.P.SortOf(T), T}, true
						}
						if al, ok := in.X.(*ssa.Alloc); ok {
							a := fr.allocAddr(al)
							t, T := fc.load(st, a)
							return TV{t, fc.P.SortOf(T), T}, true
						}
						continue
					}
					if _, ok := fr.vals[in.X]; ok {
						return mk(in.X)
					}
					if c, isC := in.X.(*ssa.Const); isC {
						// go/ssa leaves a reference to the zero value where a lifted variable was declared; a real
						// definition in the same block takes precedence
						if c.Value == nil && zeroRef == nil {
							zeroRef = in.X
							continue
						}
						return mk(in.X)
					}
				}
			case *ssa.Phi:
				if in.Comment == name {
					return mk(in)
				}
			}
		}
		if zeroRef != nil {
			// look for a real definition of the variable whose defining block dominates the query point
			// the variable's value may be recorded only at its uses: any recorded value whose DEFINITION dominates the
			// query point is a candidate; it is taken when it is the only one
			var best ssa.Value
			ambiguous := false
			for _, ob := range fr.fn.Blocks {
				for _, oin := range ob.Instrs {
					dr, ok := oin.(*ssa.DebugRef)
					if !ok || dr.IsAddr {
						continue
					}
					if id, ok := dr.Expr.(*ast.Ident); !ok || id.Name != name {
						continue
					}
					if v, isVar := dr.Object().(*types.Var); isVar && v.IsField() {
						continue
					}
					if c, isC := dr.X.(*ssa.Const); isC && c.Value == nil {
						continue
					}
					if _, ok := fr.vals[dr.X]; !ok {
						continue
					}
					if xi, ok := dr.X.(ssa.Instruction); ok && xi.Block() != nil && !xi.Block().Dominates(b) {
						continue
					}
					if best != nil && best != dr.X {
						ambiguous = true
					}
					best = dr.X
				}
			}
			if ambiguous {
				best = nil
			}
			if best != nil {
				return mk(best)
			}
			return mk(zeroRef)
		}
		return TV{}, false
	}
	if atEnd {
		if tv, ok := scan(b, true); ok {
			return tv, true
		}
	} else {
		if tv, ok := scan(b, false); ok {
			return tv, true
		}
	}
	for d := fr.idom[b]; d != nil; d = fr.idom[d] {
		if tv, ok := scan(d, true); ok {
			return tv, true
		}
	}
	// a local that is not defined on the way to this point: an arbitrary value of its type (the clause must hold for any)
	isParam := false
	for _, p := range fr.fn.Params {
		if p.Name() == name {
			isParam = true
		}
	}
	for _, p := range fr.fn.FreeVars {
		if p.Name() == name {
			isParam = true
		}
	}
	if !fr.noUndef && !isParam {
		for _, blk := range fr.fn.Blocks {
			for _, in := range blk.Instrs {
				if dr, ok := in.(*ssa.DebugRef); ok {
					if v, isVar := dr.Object().(*types.Var); isVar && v.IsField() {
						continue
					}
					if id, ok := dr.Expr.(*ast.Ident); ok && id.Name == name {
						T := dr.X.Type()
						if dr.IsAddr {
							T = T.(*types.Pointer).Elem()
						}
						// named results keep the zero-value rule below
						isRes := false
						rs := fr.fn.Signature.Results()
						for i := 0; i < rs.Len(); i++ {
							if rs.At(i).Name() == name {
								isRes = true
							}
						}
						if isRes {
							continue
						}
						c := fc.declare(fr.prefix+"undef_"+mangle(name), fc.P.SortOf(T))
						return TV{c, fc.P.SortOf(T), T}, true
					}
				}
			}
		}
	}
	// a named result that has not been assigned yet holds its zero value
	res := fr.fn.Signature.Results()
	for i := 0; i < res.Len(); i++ {
		if res.At(i).Name() == name {
			T := res.At(i).Type()
			return TV{fc.P.ZeroOf(T), fc.P.SortOf(T), T}, true
		}
	}
	return TV{}, false
}

func (fr *frame) allocAddr(al *ssa.Alloc) *addr {
	if a, ok := fr.addrs[al]; ok {
		return a
	}
	return nil
}
