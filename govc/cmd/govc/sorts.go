package main

// Sort registry and SMT prelude: Go types -> SMT sorts, axiomatised sequences (Dafny style,
// explicit triggers), struct datatypes, interface boxing. One Prelude per verified function.

import (
	"fmt"
	"go/types"
	"sort"
	"strings"
)

type Prelude struct {
	sortDecls []string // declare-sort (no dependencies)
	dtDecls   []string // datatypes, in dependency order
	funDecls  []string // functions and axioms
	done      map[string]bool
	seqElem   map[string]string // seq sort -> elem sort
	structs   map[string]*types.Struct
	structGo  map[string]types.Type
	boxes     map[string]int              // box sort -> tag
	boxTypes  map[string]types.Type       // box sort -> Go type (for the implements relation)
	implIface map[string]*types.Interface // impl_<I> predicate -> interface
	implOrder []string
	small     bool // small-scope mode: sequences are bounded datatypes (counterexample search only)
	tagNames  []string
}

func NewPrelude() *Prelude {
	return &Prelude{done: map[string]bool{}, seqElem: map[string]string{}, structs: map[string]*types.Struct{}, structGo: map[string]types.Type{}, boxes: map[string]int{}, boxTypes: map[string]types.Type{}, implIface: map[string]*types.Interface{}}
}

var mangler = strings.NewReplacer(".", "_", "/", "_", "*", "P", "[", "L", "]", "J", " ", "_", "(", "_", ")", "_", ",", "_", "$", "D", "{", "_", "}", "_", "-", "_", ";", "_", "\"", "_", ":", "_", "#", "H", "@", "_", "<", "_", ">", "_", "=", "_", "|", "_")

func mangle(s string) string { return mangler.Replace(s) }

func shortTypeString(T types.Type) string {
	return types.TypeString(T, func(p *types.Package) string { return p.Name() })
}

// intInfo describes a fixed width integer type (bits==0: mathematical / 64 bit treated as unbounded).
func intInfo(T types.Type) (bits int, signed bool, ok bool) {
	b, isB := T.Underlying().(*types.Basic)
	if !isB || b.Info()&types.IsInteger == 0 {
		return 0, false, false
	}
	switch b.Kind() {
	case types.Int8:
		return 8, true, true
	case types.Int16:
		return 16, true, true
	case types.Int32:
		return 32, true, true
	case types.Int64, types.Int, types.UntypedInt, types.UntypedRune:
		return 64, true, true
	case types.Uint8:
		return 8, false, true
	case types.Uint16:
		return 16, false, true
	case types.Uint32:
		return 32, false, true
	case types.Uint64, types.Uint, types.Uintptr:
		return 64, false, true
	}
	return 64, true, true
}

// SortOf maps a Go type to an SMT sort name, declaring what is needed.
func (p *Prelude) SortOf(T types.Type) string {
	if T == nil {
		return "Int"
	}
	switch u := T.Underlying().(type) {
	case *types.Basic:
		switch {
		case u.Info()&types.IsBoolean != 0:
			return "Bool"
		case u.Info()&types.IsInteger != 0:
			return "Int"
		case u.Info()&types.IsFloat != 0:
			return "Real"
		case u.Info()&types.IsString != 0:
			return "String"
		case u.Kind() == types.UntypedNil:
			return "Int"
		}
		return "Int"
	case *types.Struct:
		return p.structSort(T, u)
	case *types.Slice:
		return p.SeqSort(p.SortOf(u.Elem()))
	case *types.Array:
		return p.SeqSort(p.SortOf(u.Elem()))
	case *types.Tuple:
		return "Int"
	}
	// pointers, maps, interfaces, funcs, chans: references
	return "Int"
}

func (p *Prelude) structSort(T types.Type, u *types.Struct) string {
	name := "S_" + mangle(shortTypeString(T))
	if len(name) > 120 {
		name = fmt.Sprintf("%s_%x", name[:100], hashString(name))
	}
	if p.done[name] {
		return name
	}
	p.done[name] = true
	p.structs[name] = u
	p.structGo[name] = T
	if u.NumFields() == 0 {
		p.dtDecls = append(p.dtDecls, fmt.Sprintf("(declare-datatypes ((%s 0)) (((mk_%s))))", name, name))
		return name
	}
	var fs []string
	for i := 0; i < u.NumFields(); i++ {
		fs = append(fs, fmt.Sprintf("(%s_f%d %s)", name, i, p.SortOf(u.Field(i).Type())))
	}
	p.dtDecls = append(p.dtDecls, fmt.Sprintf("(declare-datatypes ((%s 0)) (((mk_%s %s))))", name, name, strings.Join(fs, " ")))
	return name
}

func hashString(s string) uint32 {
	var h uint32 = 2166136261
	for i := 0; i < len(s); i++ {
		h ^= uint32(s[i])
		h *= 16777619
	}
	return h
}

// SeqSort declares the axiomatised sequence sort over elem sort es.
func (p *Prelude) SeqSort(es string) string {
	s := "Seq_" + mangle(es)
	if p.done[s] {
		return s
	}
	p.done[s] = true
	p.seqElem[s] = es
	if p.small {
		p.smallSeq(s, es)
		return s
	}
	p.sortDecls = append(p.sortDecls, fmt.Sprintf("(declare-sort %s 0)", s))
	w := func(f string, a ...interface{}) { p.funDecls = append(p.funDecls, fmt.Sprintf(f, a...)) }
	r := strings.NewReplacer("$S", s, "$E", es)
	for _, l := range strings.Split(strings.TrimSpace(seqAxioms), "\n") {
		l = strings.TrimSpace(l)
		if l == "" || strings.HasPrefix(l, ";") {
			continue
		}
		w("%s", r.Replace(l))
	}
	return s
}

const seqAxioms = `
(declare-fun len_$S ($S) Int)
(declare-fun at_$S ($S Int) $E)
(declare-fun has_$S ($S $E) Bool)
(declare-fun empty_$S () $S)
(declare-fun build_$S ($S $E) $S)
(declare-fun cat_$S ($S $S) $S)
(declare-fun take_$S ($S Int) $S)
(declare-fun drop_$S ($S Int) $S)
(declare-fun upd_$S ($S Int $E) $S)
(declare-fun eq_$S ($S $S) Bool)
(assert (forall ((s $S)) (! (>= (len_$S s) 0) :pattern ((len_$S s)))))
(assert (= (len_$S empty_$S) 0))
(declare-fun isnil_$S ($S) Bool)
(declare-fun emptynn_$S () $S)
(assert (isnil_$S empty_$S))
(assert (= emptynn_$S empty_$S))
(assert (forall ((s $S)) (! (=> (isnil_$S s) (= (len_$S s) 0)) :pattern ((isnil_$S s)))))
(assert (forall ((s $S) (v $E)) (! (not (isnil_$S (build_$S s v))) :pattern ((build_$S s v)))))
(assert (forall ((s $S) (x $E)) (! (= (has_$S s x) (exists ((i Int)) (! (and (<= 0 i) (< i (len_$S s)) (= (at_$S s i) x)) :pattern ((at_$S s i))))) :pattern ((has_$S s x)))))
(assert (forall ((s $S) (i Int)) (! (=> (and (<= 0 i) (< i (len_$S s))) (has_$S s (at_$S s i))) :pattern ((at_$S s i)))))
(assert (forall ((s $S)) (! (=> (> (len_$S s) 0) (has_$S s (at_$S s 0))) :pattern ((len_$S s)))))
(assert (forall ((x $E)) (! (not (has_$S empty_$S x)) :pattern ((has_$S empty_$S x)))))
(assert (forall ((s $S) (v $E)) (! (= (len_$S (build_$S s v)) (+ 1 (len_$S s))) :pattern ((build_$S s v)))))
(assert (forall ((s $S) (v $E) (i Int)) (! (= (at_$S (build_$S s v) i) (ite (= i (len_$S s)) v (at_$S s i))) :pattern ((at_$S (build_$S s v) i)))))
(assert (forall ((s $S) (v $E)) (! (= (at_$S (build_$S s v) (len_$S s)) v) :pattern ((build_$S s v)))))
(assert (forall ((s $S) (v $E) (x $E)) (! (= (has_$S (build_$S s v) x) (or (= x v) (has_$S s x))) :pattern ((has_$S (build_$S s v) x)))))
(assert (forall ((s $S) (v $E)) (! (= (take_$S (build_$S s v) (len_$S s)) s) :pattern ((build_$S s v)))))
(assert (forall ((a $S) (b $S)) (! (= (len_$S (cat_$S a b)) (+ (len_$S a) (len_$S b))) :pattern ((cat_$S a b)))))
(assert (forall ((a $S) (b $S) (i Int)) (! (= (at_$S (cat_$S a b) i) (ite (< i (len_$S a)) (at_$S a i) (at_$S b (- i (len_$S a))))) :pattern ((at_$S (cat_$S a b) i)))))
(assert (forall ((a $S) (b $S) (x $E)) (! (= (has_$S (cat_$S a b) x) (or (has_$S a x) (has_$S b x))) :pattern ((has_$S (cat_$S a b) x)))))
(assert (forall ((a $S)) (! (= (cat_$S a empty_$S) a) :pattern ((cat_$S a empty_$S)))))
(assert (forall ((a $S)) (! (= (cat_$S empty_$S a) a) :pattern ((cat_$S empty_$S a)))))
(assert (forall ((a $S) (v $E)) (! (= (cat_$S a (build_$S empty_$S v)) (build_$S a v)) :pattern ((cat_$S a (build_$S empty_$S v))))))
(assert (forall ((s $S) (n Int)) (! (=> (and (<= 0 n) (<= n (len_$S s))) (= (len_$S (take_$S s n)) n)) :pattern ((len_$S (take_$S s n))))))
(assert (forall ((s $S) (n Int) (i Int)) (! (=> (and (<= 0 i) (< i n) (<= n (len_$S s))) (= (at_$S (take_$S s n) i) (at_$S s i))) :pattern ((at_$S (take_$S s n) i)))))
(assert (forall ((s $S) (x $E)) (! (not (has_$S (take_$S s 0) x)) :pattern ((has_$S (take_$S s 0) x)))))
(assert (forall ((s $S)) (! (= (len_$S (take_$S s 0)) 0) :pattern ((take_$S s 0)))))
(assert (forall ((s $S) (n Int) (x $E)) (! (=> (and (<= 0 n) (< n (len_$S s))) (= (has_$S (take_$S s (+ n 1)) x) (or (has_$S (take_$S s n) x) (= x (at_$S s n))))) :pattern ((has_$S (take_$S s (+ n 1)) x)))))
(assert (forall ((s $S) (n Int)) (! (=> (and (<= 0 n) (< n (len_$S s))) (= (take_$S s (+ n 1)) (build_$S (take_$S s n) (at_$S s n)))) :pattern ((take_$S s (+ n 1))))))
(assert (forall ((s $S) (n Int) (x $E)) (! (=> (and (<= 0 n) (<= n (len_$S s)) (has_$S (take_$S s n) x)) (has_$S s x)) :pattern ((has_$S (take_$S s n) x)))))
(assert (forall ((s $S)) (! (= (take_$S s (len_$S s)) s) :pattern ((take_$S s (len_$S s))))))
(assert (forall ((s $S) (n Int)) (! (=> (and (<= 0 n) (<= n (len_$S s))) (= (len_$S (drop_$S s n)) (- (len_$S s) n))) :pattern ((len_$S (drop_$S s n))))))
(assert (forall ((s $S) (n Int) (i Int)) (! (=> (and (<= 0 n) (<= 0 i) (< (+ i n) (len_$S s))) (= (at_$S (drop_$S s n) i) (at_$S s (+ i n)))) :pattern ((at_$S (drop_$S s n) i)))))
(assert (forall ((s $S)) (! (= (drop_$S s 0) s) :pattern ((drop_$S s 0)))))
(assert (forall ((s $S) (i Int) (v $E)) (! (= (len_$S (upd_$S s i v)) (len_$S s)) :pattern ((upd_$S s i v)))))
(assert (forall ((s $S) (i Int) (v $E) (j Int)) (! (= (at_$S (upd_$S s i v) j) (ite (= i j) v (at_$S s j))) :pattern ((at_$S (upd_$S s i v) j)))))
(assert (forall ((a $S) (b $S)) (! (= (eq_$S a b) (and (= (len_$S a) (len_$S b)) (forall ((i Int)) (! (=> (and (<= 0 i) (< i (len_$S a))) (= (at_$S a i) (at_$S b i))) :pattern ((at_$S a i)) :pattern ((at_$S b i)))))) :pattern ((eq_$S a b)))))
(assert (forall ((a $S) (b $S)) (! (=> (eq_$S a b) (= a b)) :pattern ((eq_$S a b)))))
(assert (forall ((s $S)) (! (= (isnil_$S s) (= (len_$S s) 0)) :pattern ((isnil_$S s)))))
`

// smallSeq: bounded datatype sequences (length <= 2), all operations defined. Never used to prove.
func (p *Prelude) smallSeq(s, es string) {
	w := func(f string, a ...interface{}) { p.funDecls = append(p.funDecls, fmt.Sprintf(f, a...)) }
	r := strings.NewReplacer("$S", s, "$E", es)
	p.dtDecls = append(p.dtDecls, r.Replace("(declare-datatypes (($S 0)) (((mkseq_$S (n_$S Int) (e0_$S $E) (e1_$S $E)))))"))
	for _, l := range strings.Split(strings.TrimSpace(smallSeqDefs), "\n") {
		l = strings.TrimSpace(l)
		if l != "" {
			w("%s", r.Replace(l))
		}
	}
}

const smallSeqDefs = `
(declare-fun dflt_$S () $E)
(define-fun len_$S ((s $S)) Int (ite (<= (n_$S s) 0) 0 (ite (>= (n_$S s) 2) 2 1)))
(define-fun at_$S ((s $S) (i Int)) $E (ite (= i 0) (e0_$S s) (ite (= i 1) (e1_$S s) dflt_$S)))
(define-fun has_$S ((s $S) (x $E)) Bool (or (and (>= (len_$S s) 1) (= (e0_$S s) x)) (and (>= (len_$S s) 2) (= (e1_$S s) x))))
(define-fun empty_$S () $S (mkseq_$S (- 1) dflt_$S dflt_$S))
(define-fun norm_$S ((s $S)) $S (mkseq_$S (len_$S s) (ite (>= (len_$S s) 1) (e0_$S s) dflt_$S) (ite (>= (len_$S s) 2) (e1_$S s) dflt_$S)))
(define-fun build_$S ((s $S) (v $E)) $S (ite (= (len_$S s) 0) (mkseq_$S 1 v dflt_$S) (mkseq_$S 2 (e0_$S s) v)))
(define-fun take_$S ((s $S) (n Int)) $S (ite (<= n 0) empty_$S (ite (= n 1) (mkseq_$S (ite (>= (len_$S s) 1) 1 0) (ite (>= (len_$S s) 1) (e0_$S s) dflt_$S) dflt_$S) (norm_$S s))))
(define-fun drop_$S ((s $S) (n Int)) $S (ite (<= n 0) (norm_$S s) (ite (and (= n 1) (= (len_$S s) 2)) (mkseq_$S 1 (e1_$S s) dflt_$S) empty_$S)))
(define-fun cat_$S ((a $S) (b $S)) $S (ite (= (len_$S a) 0) (norm_$S b) (ite (= (len_$S b) 0) (norm_$S a) (mkseq_$S 2 (e0_$S a) (ite (= (len_$S a) 1) (e0_$S b) (e1_$S a))))))
(define-fun upd_$S ((s $S) (i Int) (v $E)) $S (ite (= i 0) (mkseq_$S (n_$S s) v (e1_$S s)) (ite (= i 1) (mkseq_$S (n_$S s) (e0_$S s) v) s)))
(define-fun eq_$S ((a $S) (b $S)) Bool (= (norm_$S a) (norm_$S b)))
(define-fun isnil_$S ((s $S)) Bool (<= (n_$S s) 0))
(define-fun emptynn_$S () $S (mkseq_$S 0 dflt_$S dflt_$S))
`

// Box declares boxing of a concrete sort into interface values (Int), returns function suffix.
func (p *Prelude) Box(T types.Type) (name string) {
	key := mangle(shortTypeString(T))
	if len(key) > 100 {
		key = fmt.Sprintf("%s_%x", key[:80], hashString(key))
	}
	if _, ok := p.boxes[key]; ok {
		return key
	}
	tag := len(p.boxes) + 1
	p.boxes[key] = tag
	s := p.SortOf(T)
	p.needTagof()
	w := func(f string, a ...interface{}) { p.funDecls = append(p.funDecls, fmt.Sprintf(f, a...)) }
	w("(declare-fun box_%s (%s) Int)", key, s)
	w("(declare-fun unbox_%s (Int) %s)", key, s)
	w("(declare-fun tag_%s () Int)", key)
	p.tagNames = append(p.tagNames, "tag_"+key)
	w("(assert (forall ((x %s)) (! (and (= (unbox_%s (box_%s x)) x) (= (tagof (box_%s x)) tag_%s) (not (= (box_%s x) 0))) :pattern ((box_%s x)))))", s, key, key, key, key, key, key)
	w("(assert (forall ((i Int)) (! (=> (= (tagof i) tag_%s) (= (box_%s (unbox_%s i)) i)) :pattern ((unbox_%s i)))))", key, key, key, key)
	p.boxTypes[key] = T
	for _, in := range p.implOrder {
		if !types.IsInterface(T) && types.Implements(T, p.implIface[in]) {
			w("(assert (%s tag_%s))", in, key)
		}
	}
	switch T.Underlying().(type) {
	case *types.Pointer, *types.Map:
		// the reference carried by an interface value that boxes a pointer
		w("(assert (forall ((x %s)) (! (= (ptrin (box_%s x)) x) :pattern ((box_%s x)))))", s, key, key)
	}
	return key
}

func (p *Prelude) needTagof() {
	if !p.done["tagof"] {
		p.done["tagof"] = true
		p.funDecls = append(p.funDecls, "(declare-fun tagof (Int) Int)", "(assert (= (tagof 0) 0))", "(declare-fun ptrin (Int) Int)", "(assert (= (ptrin 0) 0))")
	}
}

// DeclareImpl declares the predicate "the dynamic type with this tag implements I" and states it for every concrete
// type boxed so far (and, in Box, for every one boxed later) that implements I according to go/types.
func (p *Prelude) DeclareImpl(name string, I *types.Interface) {
	if _, ok := p.implIface[name]; ok {
		return
	}
	p.needTagof()
	p.Declare(name, fmt.Sprintf("(declare-fun %s (Int) Bool)", name))
	p.implIface[name] = I
	p.implOrder = append(p.implOrder, name)
	keys := make([]string, 0, len(p.boxTypes))
	for k := range p.boxTypes {
		keys = append(keys, k)
	}
	sort.Strings(keys)
	for _, k := range keys {
		if T := p.boxTypes[k]; !types.IsInterface(T) && types.Implements(T, I) {
			p.funDecls = append(p.funDecls, fmt.Sprintf("(assert (%s tag_%s))", name, k))
		}
	}
}

// Declare adds a raw declaration once (keyed by name).
func (p *Prelude) Declare(key, decl string) {
	if p.done["decl:"+key] {
		return
	}
	p.done["decl:"+key] = true
	p.funDecls = append(p.funDecls, decl)
}

func (p *Prelude) String() string {
	var b strings.Builder
	for _, l := range p.sortDecls {
		b.WriteString(l + "\n")
	}
	for _, l := range p.dtDecls {
		b.WriteString(l + "\n")
	}
	for _, l := range p.funDecls {
		b.WriteString(l + "\n")
	}
	if len(p.tagNames) > 1 {
		tn := append([]string{}, p.tagNames...)
		sort.Strings(tn)
		b.WriteString("(assert (distinct 0 " + strings.Join(tn, " ") + "))\n")
	} else if len(p.tagNames) == 1 {
		b.WriteString("(assert (not (= 0 " + p.tagNames[0] + ")))\n")
	}
	return b.String()
}

// ZeroOf returns the SMT term for the zero value of a Go type.
func (p *Prelude) ZeroOf(T types.Type) string {
	switch u := T.Underlying().(type) {
	case *types.Basic:
		switch {
		case u.Info()&types.IsBoolean != 0:
			return "false"
		case u.Info()&types.IsFloat != 0:
			return "0.0"
		case u.Info()&types.IsString != 0:
			return "\"\""
		}
		return "0"
	case *types.Struct:
		s := p.structSort(T, u)
		if u.NumFields() == 0 {
			return "mk_" + s
		}
		var fs []string
		for i := 0; i < u.NumFields(); i++ {
			fs = append(fs, p.ZeroOf(u.Field(i).Type()))
		}
		return fmt.Sprintf("(mk_%s %s)", s, strings.Join(fs, " "))
	case *types.Slice:
		return "empty_" + p.SeqSort(p.SortOf(u.Elem()))
	case *types.Array:
		s := p.SeqSort(p.SortOf(u.Elem()))
		t := "empty_" + s
		if u.Len() > 8 {
			return p.freshArrayZero(s, u)
		}
		for i := int64(0); i < u.Len(); i++ {
			t = fmt.Sprintf("(build_%s %s %s)", s, t, p.ZeroOf(u.Elem()))
		}
		return t
	}
	return "0"
}

func (p *Prelude) freshArrayZero(s string, u *types.Array) string {
	name := fmt.Sprintf("zeroarr_%s_%d", s, u.Len())
	p.Declare(name, fmt.Sprintf("(declare-fun %s () %s)\n(assert (= (len_%s %s) %d))", name, s, s, name, u.Len()))
	return name
}

func smtString(s string) string {
	var b strings.Builder
	b.WriteByte('"')
	for i := 0; i < len(s); i++ {
		c := s[i]
		switch {
		case c == '"':
			b.WriteString("\"\"")
		case c < 0x20 || c > 0x7e || c == '\\':
			fmt.Fprintf(&b, "\\u{%x}", c)
		default:
			b.WriteByte(c)
		}
	}
	b.WriteByte('"')
	return b.String()
}

func smtInt(i int64) string {
	if i < 0 {
		if i == -9223372036854775808 {
			return "(- 9223372036854775808)"
		}
		return fmt.Sprintf("(- %d)", -i)
	}
	return fmt.Sprint(i)
}
