package main

// `govc selftest [--property Cxx]`: must-fail corpus (selftest/mutants/<prop>/*.patch) and benign corpus
// (selftest/benign/<prop>/*.patch). Patches are applied to copies of the files (never to /repo) and handed to the
// loader as an overlay.

import (
	"flag"
	"fmt"
	"os"
	"os/exec"
	"path/filepath"
	"regexp"
	"sort"
	"strings"
)

var diffFileRe = regexp.MustCompile(`(?m)^\+\+\+ b/(\S+)`)

// overlayFromPatch applies a unified diff (paths relative to the repo root, -p1) to copies and returns the overlay.
func overlayFromPatch(repo, patch string) (map[string][]byte, error) {
	data, err := os.ReadFile(patch)
	if err != nil {
		return nil, err
	}
	tmp, err := os.MkdirTemp("", "govc-overlay")
	if err != nil {
		return nil, err
	}
	defer os.RemoveAll(tmp)
	var files []string
	for _, m := range diffFileRe.FindAllStringSubmatch(string(data), -1) {
		files = append(files, m[1])
	}
	for _, f := range files {
		src, err := os.ReadFile(filepath.Join(repo, f))
		if err != nil {
			src = nil
		}
		os.MkdirAll(filepath.Dir(filepath.Join(tmp, f)), 0o755)
		os.WriteFile(filepath.Join(tmp, f), src, 0o644)
	}
	cmd := exec.Command("patch", "-p1", "-s", "-i", patch)
	cmd.Dir = tmp
	if out, err := cmd.CombinedOutput(); err != nil {
		return nil, fmt.Errorf("patch %s does not apply: %s", patch, out)
	}
	ov := map[string][]byte{}
	for _, f := range files {
		b, err := os.ReadFile(filepath.Join(tmp, f))
		if err != nil {
			return nil, err
		}
		ov[filepath.Join(repo, f)] = b
	}
	return ov, nil
}

func selftest(args []string) int {
	fs := flag.NewFlagSet("selftest", flag.ExitOnError)
	repo := fs.String("repo", envOr("GOVC_REPO", "/repo"), "repository")
	verif := fs.String("verif", envOr("GOVC_VERIF", "/verif"), "verif dir")
	prop := fs.String("property", "", "property id (default: all)")
	only := fs.String("only", "", "substring filter on patch names")
	fs.Parse(args)
	cfgs := map[string]*PropCfg{}
	if err := loadJSON(filepath.Join(*verif, "contracts", "properties.json"), &cfgs); err != nil {
		fmt.Println(err)
		return 2
	}
	var props []string
	for p := range cfgs {
		if *prop == "" || *prop == p {
			props = append(props, p)
		}
	}
	sort.Strings(props)
	var findings []KnownFinding
	loadJSON(filepath.Join(*verif, "known_findings.json"), &findings)
	openFinding := map[string]bool{}
	for _, f := range findings {
		if f.Status == "open" {
			openFinding[f.Property+" "+f.Obligation] = true
		}
	}
	bad := 0
	for _, p := range props {
		for _, kind := range []string{"mutants", "benign"} {
			patches, _ := filepath.Glob(filepath.Join(*verif, "selftest", kind, p, "*.patch"))
			sort.Strings(patches)
			for _, pt := range patches {
				if *only != "" && !strings.Contains(pt, *only) {
					continue
				}
				ov, err := overlayFromPatch(*repo, pt)
				if err != nil {
					fmt.Printf("SELFTEST-ERROR %s: %v\n", pt, err)
					bad++
					continue
				}
				res := runProperty(*repo, *verif, p, cfgs[p], "quick", ov, false)
				var failed []string
				for _, r := range res.Obls {
					if r.Status != "proved" && openFinding[p+" "+r.Name] {
						continue // fails on the unchanged tree as well: a recorded open finding (KNOWN-FINDING), not a verdict on the patch
					}
					if r.Status != "proved" && !strings.Contains(r.Name, "#asis:") {
						failed = append(failed, shortObl(r.Name)+"("+r.Class+")")
					}
				}
				for _, r := range res.Obls {
					if r.cex != nil {
						fmt.Printf("   failing input for %s: %v -> %v violates ensures %v\n", shortObl(r.Name), r.cex.Inputs, r.cex.Observed, r.cex.Violated)
						break
					}
				}
				if os.Getenv("GOVC_CEX_SELFTEST") == "2" {
					for _, r := range res.Obls {
						if r.Status != "proved" && len(r.cexLog) > 0 {
							fmt.Printf("   search log (%s): %v\n", shortObl(r.Name), r.cexLog)
							break
						}
					}
				}
				nErr := len(res.Errors) + len(res.Vacuous) + len(res.Missing)
				if res.LoadErr != "" {
					nErr++
				}
				name := filepath.Base(pt)
				if kind == "mutants" {
					expect := ""
					if b, err := os.ReadFile(strings.TrimSuffix(pt, ".patch") + ".expect"); err == nil {
						expect = strings.TrimSpace(string(b))
					}
					ok := len(failed) > 0 || nErr > 0
					hit := expect == ""
					for _, f := range failed {
						if expect != "" && strings.Contains(f, expect) {
							hit = true
						}
					}
					knownMiss := ""
					if b, err := os.ReadFile(strings.TrimSuffix(pt, ".patch") + ".known_miss"); err == nil {
						knownMiss = strings.TrimSpace(string(b))
					}
					switch {
					case !ok && knownMiss != "":
						// a documented limit of the technique (kept in the corpus so that it is noticed if it ever gets caught)
						fmt.Printf("selftest known-miss %s %s: %s\n", p, name, knownMiss)
					case !ok:
						fmt.Printf("SELFTEST-MISSED %s %s: mutant verifies (engine or contract hole)\n", p, name)
						bad++
					case res.LoadErr != "":
						fmt.Printf("SELFTEST-ERROR %s %s: %s\n", p, name, res.LoadErr)
						bad++
					case !hit:
						fmt.Printf("SELFTEST-OTHER %s %s: caught, but not by the expected obligation %q: %v %v\n", p, name, expect, failed, res.Errors)
					default:
						fmt.Printf("selftest caught %s %s: %v %v\n", p, name, failed, firstN(res.Errors, 2))
					}
				} else {
					if len(failed) > 0 || nErr > 0 || len(res.Missing) > 0 {
						fmt.Printf("SELFTEST-FALSE-ALARM %s %s: benign variant fails: %v %v %v %s missing=%v\n", p, name, failed, res.Errors, res.Vacuous, res.LoadErr, firstN(res.Missing, 3))
						bad++
					} else {
						fmt.Printf("selftest benign ok %s %s\n", p, name)
					}
				}
			}
		}
	}
	if bad > 0 {
		return 1
	}
	return 0
}

func firstN(s []string, n int) []string {
	if len(s) > n {
		return s[:n]
	}
	return s
}

func shortObl(n string) string {
	if i := strings.LastIndex(n, "/"); i >= 0 {
		return n[i+1:]
	}
	return n
}
