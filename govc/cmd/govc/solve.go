package main

import (
	"bytes"
	"context"
	"crypto/sha256"
	"fmt"
	"os"
	"os/exec"
	"path/filepath"
	"strings"
	"sync"
	"time"
)

type Verdict struct {
	Obl     *Obl
	Status  string // proved | failed
	Class   string // unsat | sat | unknown | timeout | error
	Solver  string
	Secs    float64
	File    string
	Output  string
	Hash    string
	Model   string
}

type solverCfg struct {
	name string
	args func(file string, timeout int) []string
}

var solvers = []solverCfg{
	{"z3-5.1.0", func(f string, t int) []string { return []string{"z3-new", fmt.Sprintf("-T:%d", t), f} }},
	{"cvc5-1.0.3", func(f string, t int) []string {
		return []string{"cvc5", "--strings-exp", "--enum-inst", fmt.Sprintf("--tlimit=%d", t*1000), f}
	}},
	{"z3-4.8.12", func(f string, t int) []string { return []string{"/usr/bin/z3", fmt.Sprintf("-T:%d", t), f} }},
}

func runSolver(s solverCfg, file string, timeout int) (class, out string, secs float64) {
	args := s.args(file, timeout)
	ctx, cancel := context.WithTimeout(context.Background(), time.Duration(timeout+5)*time.Second)
	defer cancel()
	cmd := exec.CommandContext(ctx, args[0], args[1:]...)
	var buf bytes.Buffer
	cmd.Stdout = &buf
	cmd.Stderr = &buf
	t0 := time.Now()
	cmd.Run()
	secs = time.Since(t0).Seconds()
	out = buf.String()
	first := strings.TrimSpace(strings.SplitN(out, "\n", 2)[0])
	switch {
	case first == "unsat":
		return "unsat", out, secs
	case first == "sat":
		return "sat", out, secs
	case first == "unknown":
		return "unknown", out, secs
	case strings.Contains(first, "timeout") || ctx.Err() != nil || strings.Contains(out, "interrupted"):
		return "timeout", out, secs
	}
	return "error", out, secs
}

// Discharge runs the portfolio on one query. all: every solver must be consulted (thorough tier).
func Discharge(o *Obl, script, dir string, timeout int, all bool) *Verdict {
	h := sha256.Sum256([]byte(script))
	name := mangle(o.Name() + "@" + o.Site)
	if len(name) > 150 {
		name = name[:150]
	}
	file := filepath.Join(dir, fmt.Sprintf("%s_%x.smt2", name, h[:4]))
	os.WriteFile(file, []byte(script), 0o644)
	v := &Verdict{Obl: o, File: file, Hash: fmt.Sprintf("%x", h[:8])}
	var firstFail *Verdict
	for i, s := range solvers {
		cls, out, secs := runSolver(s, file, timeout)
		if i == 0 && cls == "sat" {
			// ask for the model in a second run (z3 prints it after get-model)
			v.Model = getModel(script, dir, name)
		}
		v.Secs += secs
		if cls == "unsat" {
			if all && firstFail != nil && firstFail.Class == "sat" {
				// disagreement between solvers: report as failed (thorough tier requires agreement)
				v.Status, v.Class, v.Solver, v.Output = "failed", "disagree", firstFail.Solver+" vs "+s.name, firstFail.Output
				return v
			}
			v.Status, v.Class, v.Solver = "proved", "unsat", s.name
			if !all {
				return v
			}
			if firstFail == nil {
				firstFail = &Verdict{Class: "unsat", Solver: s.name}
			}
			continue
		}
		if cls == "error" && !strings.Contains(out, "error") {
			cls = "unknown"
		}
		if firstFail == nil || (firstFail.Class != "sat" && cls == "sat") || firstFail.Class == "unsat" {
			if firstFail != nil && firstFail.Class == "unsat" && cls == "sat" {
				v.Status, v.Class, v.Solver, v.Output = "failed", "disagree", firstFail.Solver+" vs "+s.name, out
				return v
			}
			if firstFail == nil || firstFail.Class != "unsat" {
				firstFail = &Verdict{Class: cls, Solver: s.name, Output: out}
			}
		}
	}
	if v.Status == "proved" {
		return v
	}
	if firstFail != nil && firstFail.Class == "unsat" {
		v.Status, v.Class, v.Solver = "proved", "unsat", firstFail.Solver
		return v
	}
	v.Status = "failed"
	if firstFail != nil {
		v.Class, v.Solver, v.Output = firstFail.Class, firstFail.Solver, firstFail.Output
	}
	if len(v.Output) > 4000 {
		v.Output = v.Output[:4000]
	}
	return v
}

func getModel(script, dir, name string) string {
	file := filepath.Join(dir, name+"_model.smt2")
	os.WriteFile(file, []byte(script+"(get-model)\n"), 0o644)
	ctx, cancel := context.WithTimeout(context.Background(), 30*time.Second)
	defer cancel()
	out, _ := exec.CommandContext(ctx, "z3-new", "-T:20", file).CombinedOutput()
	return string(out)
}

// pool runs jobs on n workers.
func pool(n int, jobs []func()) {
	var wg sync.WaitGroup
	ch := make(chan func())
	for i := 0; i < n; i++ {
		wg.Add(1)
		go func() {
			defer wg.Done()
			for j := range ch {
				j()
			}
		}()
	}
	for _, j := range jobs {
		ch <- j
	}
	close(ch)
	wg.Wait()
}
