package main

import (
	"bytes"
	"context"
	"crypto/sha256"
	"fmt"
	"os"
	"os/exec"
	"path/filepath"
	"strings"
	"sync"
	"time"
)

type Verdict struct {
	Obl     *Obl
	Status  string // proved | failed
	Class   string // unsat | sat | unknown | timeout | error
	Solver  string
	Secs    float64
	File    string
	Output  string
	Hash    string
	Model   string
	OwnSecs float64 // time of the deciding query alone
	FullCtx bool    // the sliced query did not decide it
}

type solverCfg struct {
	name string
	args func(file string, timeout int) []string
}

var solvers = []solverCfg{
	{"z3-5.1.0", func(f string, t int) []string { return []string{"z3-new", fmt.Sprintf("-T:%d", t), f} }},
	{"cvc5-1.0.3", func(f string, t int) []string {
		return []string{"cvc5", "--strings-exp", "--enum-inst", fmt.Sprintf("--tlimit=%d", t*1000), f}
	}},
	{"z3-4.8.12", func(f string, t int) []string { return []string{"/usr/bin/z3", fmt.Sprintf("-T:%d", t), f} }},
}

func runSolver(s solverCfg, file string, timeout int) (class, out string, secs float64) {
	return runSolverCtx(context.Background(), s, file, timeout)
}

func runSolverCtx(parent context.Context, s solverCfg, file string, timeout int) (class, out string, secs float64) {
	args := s.args(file, timeout)
	ctx, cancel := context.WithTimeout(parent, time.Duration(timeout+5)*time.Second)
	defer cancel()
	cmd := exec.CommandContext(ctx, args[0], args[1:]...)
	var buf bytes.Buffer
	cmd.Stdout = &buf
	cmd.Stderr = &buf
	t0 := time.Now()
	cmd.Run()
	secs = time.Since(t0).Seconds()
	out = buf.String()
	first := ""
	for _, l := range strings.Split(out, "\n") {
		l = strings.TrimSpace(l)
		if l == "" || strings.HasPrefix(l, "WARNING") || strings.HasPrefix(l, "(warning") {
			continue
		}
		first = l
		break
	}
	switch {
	case first == "unsat":
		return "unsat", out, secs
	case first == "sat":
		return "sat", out, secs
	case first == "unknown":
		return "unknown", out, secs
	case parent.Err() != nil:
		return "cancelled", out, secs
	case strings.Contains(first, "timeout") || ctx.Err() != nil || strings.Contains(out, "interrupted"):
		return "timeout", out, secs
	}
	if !strings.Contains(out, "error") {
		return "unknown", out, secs
	}
	return "error", out, secs
}

// Discharge races the portfolio on one query: the first `unsat` wins. all: every solver must answer and none may
// contradict (`sat` against `unsat`) — thorough tier.
func Discharge(o *Obl, script, dir string, timeout int, all bool) *Verdict {
	h := sha256.Sum256([]byte(script))
	name := mangle(o.Name() + "@" + o.Site)
	if len(name) > 150 {
		name = name[:150]
	}
	file := filepath.Join(dir, fmt.Sprintf("%s_%x.smt2", name, h[:4]))
	if len(script) <= 3<<20 {
		os.WriteFile(file, []byte(script), 0o644)
	}
	v := &Verdict{Obl: o, File: file, Hash: fmt.Sprintf("%x", h[:8])}
	if len(script) > 3<<20 {
		// size cap: a query this large means the encoding has blown up; fail closed instead of stalling
		os.WriteFile(file, []byte(script[:4096]+"\n; ... truncated: query exceeded the 3 MB cap\n"), 0o644)
		v.Status, v.Class, v.Output = "failed", "toolarge", fmt.Sprintf("query of %d bytes exceeds the 3 MB cap", len(script))
		return v
	}
	type ans struct {
		solver, class, out string
		secs               float64
	}
	ctx, cancel := context.WithCancel(context.Background())
	defer cancel()
	ch := make(chan ans, len(solvers))
	t0 := time.Now()
	for _, s := range solvers {
		s := s
		go func() {
			cls, out, secs := runSolverCtx(ctx, s, file, timeout)
			ch <- ans{s.name, cls, out, secs}
		}()
	}
	var answers []ans
	for range solvers {
		a := <-ch
		answers = append(answers, a)
		if a.class == "unsat" && !all {
			cancel()
			v.Status, v.Class, v.Solver, v.Secs = "proved", "unsat", a.solver, time.Since(t0).Seconds()
			return v
		}
	}
	v.Secs = time.Since(t0).Seconds()
	var unsat, sat, other *ans
	for i := range answers {
		a := &answers[i]
		switch a.class {
		case "unsat":
			if unsat == nil {
				unsat = a
			}
		case "sat":
			if sat == nil {
				sat = a
			}
		default:
			if other == nil {
				other = a
			}
		}
	}
	switch {
	case unsat != nil && sat != nil:
		v.Status, v.Class, v.Solver, v.Output = "failed", "disagree", unsat.solver+" vs "+sat.solver, sat.out
	case unsat != nil:
		v.Status, v.Class, v.Solver = "proved", "unsat", unsat.solver
	case sat != nil:
		v.Status, v.Class, v.Solver, v.Output = "failed", "sat", sat.solver, sat.out
		v.Model = getModel(script, dir, name)
	case other != nil:
		v.Status, v.Class, v.Solver, v.Output = "failed", other.class, other.solver, other.out
		for _, a := range answers {
			if a.class == "timeout" {
				v.Class = "timeout"
			}
		}
	}
	if len(v.Output) > 4000 {
		v.Output = v.Output[:4000]
	}
	return v
}

func getModel(script, dir, name string) string {
	file := filepath.Join(dir, name+"_model.smt2")
	os.WriteFile(file, []byte(script+"(get-model)\n"), 0o644)
	ctx, cancel := context.WithTimeout(context.Background(), 30*time.Second)
	defer cancel()
	out, _ := exec.CommandContext(ctx, "z3-new", "-T:20", file).CombinedOutput()
	return string(out)
}

// pool runs jobs on n workers.
func pool(n int, jobs []func()) {
	var wg sync.WaitGroup
	ch := make(chan func())
	for i := 0; i < n; i++ {
		wg.Add(1)
		go func() {
			defer wg.Done()
			for j := range ch {
				j()
			}
		}()
	}
	for _, j := range jobs {
		ch <- j
	}
	close(ch)
	wg.Wait()
}
