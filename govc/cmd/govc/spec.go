package main

// Contract language: tokenizer, expression parser, contract-file parser.
// Contracts are `//@` comment lines in zz_verif_contracts.go files of /repo (build tag verif) and
// in /verif/contracts/*.spec files (property-level spec functions, lemmas, trusted extern stubs).

import (
	"fmt"
	"os"
	"regexp"
	"strconv"
	"strings"
)

// ---------------- expressions ----------------

type Expr interface{}

type (
	EIdent struct{ Name string }
	EInt   struct{ Val string }
	EReal  struct{ Val string }
	EStr   struct{ Val string }
	EBool  struct{ Val bool }
	ENil   struct{}
	EUnary struct {
		Op string
		X  Expr
	}
	EBinary struct {
		Op   string
		X, Y Expr
	}
	ECall struct {
		Fun  string
		Args []Expr
	}
	ESel struct {
		X    Expr
		Name string
	}
	EIndex  struct{ X, I Expr }
	ESlice  struct{ X, Lo, Hi Expr }
	QVar    struct{ Name, Type string }
	EQuant  struct {
		Forall   bool
		Vars     []QVar
		Triggers [][]Expr
		Body     Expr
	}
	ECond struct{ C, A, B Expr }
)

type stoken struct {
	kind string // id int real str op eof
	text string
	pos  int
}

func tokenize(src string) ([]stoken, error) {
	var toks []stoken
	i := 0
	ops := []string{"<==>", "===", "==>", "&&", "||", "==", "!=", "<=", ">=", "::", "(", ")", "[", "]", "{", "}", ",", ":", ".", "?", "<", ">", "+", "-", "*", "/", "%", "!", "&", "|"}
	for i < len(src) {
		c := src[i]
		switch {
		case c == ' ' || c == '\t' || c == '\n' || c == '\r':
			i++
		case c == '"':
			j := i + 1
			for j < len(src) && src[j] != '"' {
				if src[j] == '\\' {
					j++
				}
				j++
			}
			if j >= len(src) {
				return nil, fmt.Errorf("unterminated string at %d", i)
			}
			s, err := strconv.Unquote(src[i : j+1])
			if err != nil {
				return nil, fmt.Errorf("bad string %s: %v", src[i:j+1], err)
			}
			toks = append(toks, stoken{"str", s, i})
			i = j + 1
		case c == '\'':
			// byte literal
			j := i + 1
			for j < len(src) && src[j] != '\'' {
				if src[j] == '\\' {
					j++
				}
				j++
			}
			r, _, _, err := strconv.UnquoteChar(src[i+1:j], '\'')
			if err != nil {
				return nil, fmt.Errorf("bad char literal at %d", i)
			}
			toks = append(toks, stoken{"int", fmt.Sprint(int(r)), i})
			i = j + 1
		case c >= '0' && c <= '9':
			j := i
			isReal := false
			for j < len(src) && (src[j] >= '0' && src[j] <= '9' || src[j] == '.' && j+1 < len(src) && src[j+1] >= '0' && src[j+1] <= '9') {
				if src[j] == '.' {
					isReal = true
				}
				j++
			}
			k := "int"
			if isReal {
				k = "real"
			}
			toks = append(toks, stoken{k, src[i:j], i})
			i = j
		case c == '_' || c >= 'a' && c <= 'z' || c >= 'A' && c <= 'Z':
			j := i
			for j < len(src) && (src[j] == '_' || src[j] == '$' || src[j] >= 'a' && src[j] <= 'z' || src[j] >= 'A' && src[j] <= 'Z' || src[j] >= '0' && src[j] <= '9') {
				j++
			}
			toks = append(toks, stoken{"id", src[i:j], i})
			i = j
		default:
			matched := false
			for _, o := range ops {
				if strings.HasPrefix(src[i:], o) {
					toks = append(toks, stoken{"op", o, i})
					i += len(o)
					matched = true
					break
				}
			}
			if !matched {
				return nil, fmt.Errorf("unexpected character %q at %d in %q", c, i, src)
			}
		}
	}
	toks = append(toks, stoken{"eof", "", len(src)})
	return toks, nil
}

type parser struct {
	toks []stoken
	p    int
	src  string
}

func ParseExpr(src string) (e Expr, err error) {
	toks, err := tokenize(src)
	if err != nil {
		return nil, err
	}
	ps := &parser{toks: toks, src: src}
	defer func() {
		if r := recover(); r != nil {
			if pe, ok := r.(parseErr); ok {
				err = fmt.Errorf("%s in %q", string(pe), src)
				return
			}
			panic(r)
		}
	}()
	e = ps.expr()
	if ps.peek().kind != "eof" {
		ps.fail("unexpected %q", ps.peek().text)
	}
	return e, nil
}

type parseErr string

func (ps *parser) fail(f string, a ...interface{}) {
	panic(parseErr(fmt.Sprintf("parse error at %d: ", ps.peek().pos) + fmt.Sprintf(f, a...)))
}
func (ps *parser) peek() stoken { return ps.toks[ps.p] }
func (ps *parser) next() stoken  { t := ps.toks[ps.p]; ps.p++; return t }
func (ps *parser) isOp(s string) bool {
	t := ps.peek()
	return t.kind == "op" && t.text == s
}
func (ps *parser) accept(s string) bool {
	if ps.isOp(s) {
		ps.p++
		return true
	}
	return false
}
func (ps *parser) expect(s string) {
	if !ps.accept(s) {
		ps.fail("expected %q, found %q", s, ps.peek().text)
	}
}

func (ps *parser) expr() Expr { return ps.iff() }

func (ps *parser) iff() Expr {
	x := ps.implies()
	for ps.accept("<==>") {
		y := ps.implies()
		x = &EBinary{"<==>", x, y}
	}
	return x
}

func (ps *parser) implies() Expr {
	x := ps.cond()
	if ps.accept("==>") {
		y := ps.implies()
		return &EBinary{"==>", x, y}
	}
	return x
}

func (ps *parser) cond() Expr {
	c := ps.or()
	if ps.accept("?") {
		a := ps.cond()
		ps.expect(":")
		b := ps.cond()
		return &ECond{c, a, b}
	}
	return c
}

func (ps *parser) or() Expr {
	x := ps.and()
	for ps.accept("||") {
		x = &EBinary{"||", x, ps.and()}
	}
	return x
}
func (ps *parser) and() Expr {
	x := ps.cmp()
	for ps.accept("&&") {
		x = &EBinary{"&&", x, ps.cmp()}
	}
	return x
}
func (ps *parser) cmp() Expr {
	x := ps.add()
	for {
		t := ps.peek()
		if t.kind == "op" && (t.text == "==" || t.text == "===" || t.text == "!=" || t.text == "<" || t.text == "<=" || t.text == ">" || t.text == ">=") {
			ps.p++
			x = &EBinary{t.text, x, ps.add()}
			continue
		}
		if t.kind == "id" && t.text == "in" {
			ps.p++
			x = &EBinary{"in", x, ps.add()}
			continue
		}
		return x
	}
}
func (ps *parser) add() Expr {
	x := ps.mul()
	for {
		t := ps.peek()
		if t.kind == "op" && (t.text == "+" || t.text == "-") {
			ps.p++
			x = &EBinary{t.text, x, ps.mul()}
			continue
		}
		return x
	}
}
func (ps *parser) mul() Expr {
	x := ps.unary()
	for {
		t := ps.peek()
		if t.kind == "op" && (t.text == "*" || t.text == "/" || t.text == "%") {
			ps.p++
			x = &EBinary{t.text, x, ps.unary()}
			continue
		}
		return x
	}
}
func (ps *parser) unary() Expr {
	t := ps.peek()
	if t.kind == "op" && (t.text == "!" || t.text == "-" || t.text == "*" || t.text == "&") {
		ps.p++
		return &EUnary{t.text, ps.unary()}
	}
	if t.kind == "id" && (t.text == "forall" || t.text == "exists") {
		return ps.quant()
	}
	return ps.postfix()
}

func (ps *parser) quant() Expr {
	q := &EQuant{Forall: ps.next().text == "forall"}
	for {
		name := ps.next()
		if name.kind != "id" {
			ps.fail("quantifier variable expected")
		}
		// type: raw tokens until top-level , or ::
		start := ps.peek().pos
		depth := 0
		for {
			t := ps.peek()
			if t.kind == "eof" {
				ps.fail("unterminated quantifier")
			}
			if t.kind == "op" && (t.text == "[" || t.text == "(") {
				depth++
			}
			if t.kind == "op" && (t.text == "]" || t.text == ")") {
				depth--
			}
			if depth == 0 && t.kind == "op" && (t.text == "," || t.text == "::") {
				break
			}
			ps.p++
		}
		q.Vars = append(q.Vars, QVar{name.text, strings.TrimSpace(ps.src[start:ps.peek().pos])})
		if ps.accept(",") {
			continue
		}
		ps.expect("::")
		break
	}
	for ps.isOp("{") {
		ps.p++
		var trig []Expr
		for {
			trig = append(trig, ps.cond())
			if !ps.accept(",") {
				break
			}
		}
		ps.expect("}")
		q.Triggers = append(q.Triggers, trig)
	}
	q.Body = ps.expr()
	return q
}

func (ps *parser) postfix() Expr {
	x := ps.primary()
	for {
		switch {
		case ps.accept("."):
			n := ps.next()
			if n.kind != "id" {
				ps.fail("field name expected")
			}
			x = &ESel{x, n.text}
		case ps.accept("["):
			if ps.accept(":") {
				hi := ps.expr()
				ps.expect("]")
				x = &ESlice{x, nil, hi}
				continue
			}
			i := ps.expr()
			if ps.accept(":") {
				if ps.accept("]") {
					x = &ESlice{x, i, nil}
					continue
				}
				hi := ps.expr()
				ps.expect("]")
				x = &ESlice{x, i, hi}
				continue
			}
			ps.expect("]")
			x = &EIndex{x, i}
		case ps.isOp("("):
			// call: only on identifiers / qualified identifiers
			name := ""
			switch f := x.(type) {
			case *EIdent:
				name = f.Name
			case *ESel:
				if id, ok := f.X.(*EIdent); ok {
					name = id.Name + "." + f.Name
				}
			}
			if name == "" {
				ps.fail("call of non-identifier")
			}
			ps.p++
			var args []Expr
			if !ps.isOp(")") {
				for {
					args = append(args, ps.expr())
					if !ps.accept(",") {
						break
					}
				}
			}
			ps.expect(")")
			x = &ECall{name, args}
		default:
			return x
		}
	}
}

func (ps *parser) primary() Expr {
	t := ps.next()
	switch t.kind {
	case "int":
		return &EInt{t.text}
	case "real":
		return &EReal{t.text}
	case "str":
		return &EStr{t.text}
	case "id":
		switch t.text {
		case "true":
			return &EBool{true}
		case "false":
			return &EBool{false}
		case "nil":
			return &ENil{}
		}
		return &EIdent{t.text}
	case "op":
		if t.text == "(" {
			e := ps.expr()
			ps.expect(")")
			return e
		}
	}
	ps.p--
	ps.fail("unexpected %q", t.text)
	return nil
}

// ---------------- contract files ----------------

type Clause struct {
	Kind    string // requires ensures asis invariant(loop) modifies lemma axiom
	Label   string
	Loop    int
	Stage   int
	Text    string
	E       Expr
	Using   []string
	Window  int
	Since   string
	File    string
	Line    int
	Finding bool // ensures that is a known finding candidate (has an as-is pin)
	OnlyFor []string // properties under which this clause is an obligation (empty = all)
}

type FuncContract struct {
	Pkg        string // import path
	Key        string // Name | (T).Name | (*T).Name | Outer$1
	Requires   []*Clause
	Ensures    []*Clause
	AsIs       []*Clause
	Invariants []*Clause // loop invariants
	Modifies   []string  // raw items; "*" = anything
	HasMod     bool
	Pure       bool
	PureDef    *Clause // closures: result == E
	PanicsNever bool
	Rely       []*Clause // two-state: what other goroutines may do to sync.Maps between two of this function's steps
	Guarantee  []*Clause // two-state: what every sync.Map step of this function does
	IterKind   string // goset | syncmap
	IterBody   bool // closure passed to a Range-style iterator: its requires must be re-established when it returns true
	Inline     bool
	Trusted    bool // extern: no body is verified
	TrustReason string
	IsIface    bool
	Params     []string // extern: parameter names (receiver first for methods)
	Opaque     bool
	File       string
	Line       int
	Props      []string
	GhostSets  []GhostSet // ghost assignments performed when the function returns (ghost code: no obligation, no Go effect)
}

type GhostSet struct {
	Name string
	E    Expr
	Text string
}

type SpecFunc struct {
	Name    string
	Params  []QVar
	Result  string
	Body    Expr
	BodyTxt string
	Pkg     string
	File    string
}

type Lemma struct {
	Label   string
	E       Expr
	Text    string
	Pkg     string
	Axiom   bool
	Using   []string
	File    string
	Props   []string
}

// Refinement: the proved contract of an implementation implies the (otherwise assumed) contract of an interface method,
// under a coupling predicate that defines the interface's ghost view in terms of the implementation's state.
type Refinement struct {
	Impl     string // contract key of the implementation (pkg::(*T).M)
	Iface    string // contract key of the interface method (pkg::(I).M)
	Label    string
	Coupling Expr
	Clauses  []string // labels of the interface ensures to prove (empty = all)
	Text     string
	Pkg      string
	Props    []string
	File     string
}

type GhostVar struct {
	Name string
	Type string
	Pkg  string
}

type TypeInv struct {
	Var, Type string
	C         *Clause
	Pkg       string
}

type Spec struct {
	Funcs   map[string]*FuncContract // "pkgpath::Key"
	Order   []string
	Specs   map[string]*SpecFunc
	SpecOrd []string
	Lemmas  []*Lemma
	Refines []*Refinement
	Ghosts  map[string]*GhostVar
	GhostOrd []string
	Invs    []*TypeInv
	Consts  map[string]string
}

func NewSpec() *Spec {
	return &Spec{Funcs: map[string]*FuncContract{}, Specs: map[string]*SpecFunc{}, Ghosts: map[string]*GhostVar{}, Consts: map[string]string{}}
}

var labelRe = regexp.MustCompile(`^\[([A-Za-z0-9_\-]+)\]\s*`)
var stageRe = regexp.MustCompile(`^\[stage (\d+)\]\s*`)
var windowRe = regexp.MustCompile(`\s+window\s+(\d+)$`)
var sinceRe = regexp.MustCompile(`\s+since\s+"([^"]+)"$`)
var usingRe = regexp.MustCompile(`\s+using\s+([A-Za-z0-9_, \-]+)$`)
var onlyforRe = regexp.MustCompile(`\s+onlyfor\s+([A-Z0-9, ]+)$`)

var propsRe = regexp.MustCompile(`\s+props\s+([A-Z0-9, ]+)$`)

var directiveKw = []string{"interface ", "trusted", "func ", "extern ", "requires ", "ensures ", "rely ", "guarantee ", "as-is ", "modifies ", "ghost-set ", "loop ", "pure-def ", "pure", "panics-never", "iterator-body", "inline", "opaque", "spec ", "axiom ", "lemma ", "refines ", "ghost ", "invariant ", "package ", "const ", "props "}

func isDirective(l string) bool {
	for _, k := range directiveKw {
		if strings.HasPrefix(l, k) || l == strings.TrimSpace(k) {
			return true
		}
	}
	return false
}

// ParseContractFile reads //@ lines (Go file) or raw lines (.spec file; '#' and '//' comments).
func (sp *Spec) ParseContractFile(path, defaultPkg string) error {
	data, err := os.ReadFile(path)
	if err != nil {
		return err
	}
	isGo := strings.HasSuffix(path, ".go")
	type dline struct {
		text string
		line int
	}
	var ds []dline
	for i, raw := range strings.Split(string(data), "\n") {
		l := strings.TrimSpace(raw)
		if isGo {
			if !strings.HasPrefix(l, "//@") {
				continue
			}
			l = strings.TrimSpace(strings.TrimPrefix(l, "//@"))
		} else {
			if strings.HasPrefix(l, "#") || strings.HasPrefix(l, "//") {
				continue
			}
		}
		if l == "" {
			continue
		}
		// trailing comment  " // ..." outside strings: only strip when preceded by two spaces
		if k := strings.Index(l, "   // "); k >= 0 && strings.Count(l[:k], "\"")%2 == 0 {
			l = strings.TrimSpace(l[:k])
		}
		if isDirective(l) || len(ds) == 0 {
			ds = append(ds, dline{l, i + 1})
		} else {
			ds[len(ds)-1].text += " " + l
		}
	}
	pkg := defaultPkg
	var cur *FuncContract
	for _, d := range ds {
		l := d.text
		fail := func(f string, a ...interface{}) error {
			return fmt.Errorf("%s:%d: %s", path, d.line, fmt.Sprintf(f, a...))
		}
		mkClause := func(kind, rest string) (*Clause, error) {
			c := &Clause{Kind: kind, File: path, Line: d.line, Stage: 1}
			// `... onlyfor C05, C06`: the clause is an obligation only when one of these properties is checked (it is
			// always available to callers as an assumption)
			if m := onlyforRe.FindStringSubmatch(rest); m != nil {
				for _, u := range strings.Split(m[1], ",") {
					c.OnlyFor = append(c.OnlyFor, strings.TrimSpace(u))
				}
				rest = rest[:len(rest)-len(m[0])]
			}
			if m := sinceRe.FindStringSubmatch(rest); m != nil {
				c.Since = m[1]
				rest = rest[:len(rest)-len(m[0])]
			}
			if m := windowRe.FindStringSubmatch(rest); m != nil {
				c.Window, _ = strconv.Atoi(m[1])
				rest = rest[:len(rest)-len(m[0])]
			}
			if m := usingRe.FindStringSubmatch(rest); m != nil {
				for _, u := range strings.Split(m[1], ",") {
					c.Using = append(c.Using, strings.TrimSpace(u))
				}
				rest = rest[:len(rest)-len(m[0])]
			}
			for {
				if m := stageRe.FindStringSubmatch(rest); m != nil {
					c.Stage, _ = strconv.Atoi(m[1])
					rest = rest[len(m[0]):]
					continue
				}
				if m := labelRe.FindStringSubmatch(rest); m != nil && c.Label == "" {
					c.Label = m[1]
					rest = rest[len(m[0]):]
					continue
				}
				break
			}
			c.Text = rest
			e, err := ParseExpr(rest)
			if err != nil {
				return nil, fail("%v", err)
			}
			c.E = e
			return c, nil
		}
		switch {
		case strings.HasPrefix(l, "package "):
			pkg = strings.TrimSpace(strings.TrimPrefix(l, "package "))
			cur = nil
		case strings.HasPrefix(l, "trusted"):
			if cur == nil {
				return fail("trusted outside func")
			}
			cur.Trusted = true
			cur.TrustReason = strings.Trim(strings.TrimSpace(strings.TrimPrefix(l, "trusted")), "\"")
		case strings.HasPrefix(l, "func "), strings.HasPrefix(l, "extern "), strings.HasPrefix(l, "interface "):
			ext := strings.HasPrefix(l, "extern ")
			isIface := strings.HasPrefix(l, "interface ")
			rest := strings.TrimSpace(strings.TrimPrefix(strings.TrimPrefix(strings.TrimPrefix(l, "extern "), "func "), "interface "))
			fc := &FuncContract{Pkg: pkg, File: path, Line: d.line, Trusted: ext || isIface, IsIface: isIface}
			if m := propsRe.FindStringSubmatch(rest); m != nil {
				for _, u := range strings.Split(m[1], ",") {
					fc.Props = append(fc.Props, strings.TrimSpace(u))
				}
				rest = rest[:len(rest)-len(m[0])]
			}
			if ext {
				// extern "import/path".Name(p1, p2)   |  extern "import/path".(T).Name(recv, p1)
				m := regexp.MustCompile(`^"([^"]+)"\.(\(\*?[A-Za-z0-9_]+\)\.)?([A-Za-z0-9_]+)\s*\(([^)]*)\)$`).FindStringSubmatch(rest)
				if m == nil {
					return fail("bad extern declaration %q", rest)
				}
				fc.Pkg = m[1]
				fc.Key = m[2] + m[3]
				for _, pn := range strings.Split(m[4], ",") {
					if pn = strings.TrimSpace(pn); pn != "" {
						fc.Params = append(fc.Params, pn)
					}
				}
			} else {
				// strip a signature if given: keep up to first space or '(' after the name
				m := regexp.MustCompile(`^(\(\*?[A-Za-z0-9_]+\)\.)?([A-Za-z0-9_$]+)(?:\s*\(([A-Za-z0-9_, ]*)\))?`).FindStringSubmatch(rest)
				if m == nil {
					return fail("bad func key %q", rest)
				}
				fc.Key = m[1] + m[2]
				if isIface {
					for _, pn := range strings.Split(m[3], ",") {
						if pn = strings.TrimSpace(pn); pn != "" {
							fc.Params = append(fc.Params, pn)
						}
					}
				}
			}
			k := fc.Pkg + "::" + fc.Key
			if _, dup := sp.Funcs[k]; dup {
				return fail("duplicate contract for %s", k)
			}
			sp.Funcs[k] = fc
			sp.Order = append(sp.Order, k)
			cur = fc
		case strings.HasPrefix(l, "props "):
			if cur == nil {
				return fail("props outside func")
			}
			for _, u := range strings.Split(strings.TrimPrefix(l, "props "), ",") {
				cur.Props = append(cur.Props, strings.TrimSpace(u))
			}
		case strings.HasPrefix(l, "requires "), strings.HasPrefix(l, "ensures "), strings.HasPrefix(l, "rely "), strings.HasPrefix(l, "guarantee "), strings.HasPrefix(l, "as-is "), strings.HasPrefix(l, "pure-def "):
			if cur == nil {
				return fail("clause outside func")
			}
			kw := l[:strings.Index(l, " ")]
			c, err := mkClause(kw, strings.TrimSpace(l[len(kw):]))
			if err != nil {
				return err
			}
			switch kw {
			case "requires":
				cur.Requires = append(cur.Requires, c)
			case "ensures":
				cur.Ensures = append(cur.Ensures, c)
			case "as-is":
				cur.AsIs = append(cur.AsIs, c)
			case "rely":
				cur.Rely = append(cur.Rely, c)
			case "guarantee":
				cur.Guarantee = append(cur.Guarantee, c)
			case "pure-def":
				cur.PureDef = c
				cur.Pure = true
			}
			if c.Label == "" {
				// unlabelled clauses are named by their ordinal among the clauses of the same kind in this contract
				// (stable when unrelated lines move)
				n := map[string]int{"requires": len(cur.Requires), "ensures": len(cur.Ensures), "as-is": len(cur.AsIs), "rely": len(cur.Rely), "guarantee": len(cur.Guarantee), "pure-def": 1}[kw]
				c.Label = fmt.Sprintf("%s_%d", kw[:3], n)
			}
		case strings.HasPrefix(l, "ghost-set "):
			if cur == nil {
				return fail("clause outside func")
			}
			gm := regexp.MustCompile(`^ghost-set\s+(\w+)\s*=\s*(.*)$`).FindStringSubmatch(l)
			if gm == nil {
				return fail("bad ghost-set clause %q", l)
			}
			ge, err := ParseExpr(gm[2])
			if err != nil {
				return fail("ghost-set %s: %v", gm[1], err)
			}
			cur.GhostSets = append(cur.GhostSets, GhostSet{Name: gm[1], E: ge, Text: gm[2]})
		case strings.HasPrefix(l, "loop "):
			if cur == nil {
				return fail("clause outside func")
			}
			m := regexp.MustCompile(`^loop (\d+):\s*invariant\s+(.*)$`).FindStringSubmatch(l)
			if m == nil {
				return fail("bad loop clause %q", l)
			}
			c, err := mkClause("invariant", m[2])
			if err != nil {
				return err
			}
			c.Loop, _ = strconv.Atoi(m[1])
			cur.Invariants = append(cur.Invariants, c)
			if c.Label == "" {
				c.Label = fmt.Sprintf("inv_%d", len(cur.Invariants))
			}
		case strings.HasPrefix(l, "modifies "):
			if cur == nil {
				return fail("clause outside func")
			}
			cur.HasMod = true
			for _, it := range splitTop(strings.TrimPrefix(l, "modifies "), ',') {
				it = strings.TrimSpace(it)
				if it != "" && it != "nothing" {
					cur.Modifies = append(cur.Modifies, it)
				}
			}
		case l == "pure":
			if cur == nil {
				return fail("clause outside func")
			}
			cur.Pure = true
		case l == "panics-never":
			cur.PanicsNever = true
		case l == "iterator-body" || strings.HasPrefix(l, "iterator-body "):
			cur.IterBody = true
			cur.IterKind = strings.TrimSpace(strings.TrimPrefix(l, "iterator-body"))
		case l == "inline":
			cur.Inline = true
		case l == "opaque":
			cur.Opaque = true
		case strings.HasPrefix(l, "const "):
			m := regexp.MustCompile(`^const ([A-Za-z0-9_]+)\s*=\s*(.*)$`).FindStringSubmatch(l)
			if m == nil {
				return fail("bad const")
			}
			sp.Consts[m[1]] = m[2]
		case strings.HasPrefix(l, "spec "):
			// spec func name(a T, b U) R [= expr]
			rest := strings.TrimSpace(strings.TrimPrefix(strings.TrimPrefix(l, "spec "), "func "))
			open := strings.Index(rest, "(")
			if open < 0 {
				return fail("bad spec func")
			}
			name := strings.TrimSpace(rest[:open])
			depth, close := 0, -1
			for i := open; i < len(rest); i++ {
				if rest[i] == '(' {
					depth++
				} else if rest[i] == ')' {
					depth--
					if depth == 0 {
						close = i
						break
					}
				}
			}
			if close < 0 {
				return fail("bad spec func params")
			}
			sf := &SpecFunc{Name: name, Pkg: pkg, File: path}
			for _, pt := range splitTop(rest[open+1:close], ',') {
				pt = strings.TrimSpace(pt)
				if pt == "" {
					continue
				}
				k := strings.IndexAny(pt, " \t")
				if k < 0 {
					return fail("spec param needs a type: %q", pt)
				}
				sf.Params = append(sf.Params, QVar{pt[:k], strings.TrimSpace(pt[k:])})
			}
			tail := strings.TrimSpace(rest[close+1:])
			if eq := strings.Index(tail, "="); eq >= 0 && !strings.HasPrefix(tail[eq:], "==") {
				sf.Result = strings.TrimSpace(tail[:eq])
				sf.BodyTxt = strings.TrimSpace(tail[eq+1:])
				e, err := ParseExpr(sf.BodyTxt)
				if err != nil {
					return fail("%v", err)
				}
				sf.Body = e
			} else {
				sf.Result = tail
			}
			if _, dup := sp.Specs[name]; dup {
				return fail("duplicate spec func %s", name)
			}
			sp.Specs[name] = sf
			sp.SpecOrd = append(sp.SpecOrd, name)
			cur = nil
		case strings.HasPrefix(l, "axiom "), strings.HasPrefix(l, "lemma "):
			ax := strings.HasPrefix(l, "axiom ")
			rest := strings.TrimSpace(l[6:])
			var props []string
			if m := propsRe.FindStringSubmatch(rest); m != nil {
				for _, u := range strings.Split(m[1], ",") {
					props = append(props, strings.TrimSpace(u))
				}
				rest = rest[:len(rest)-len(m[0])]
			}
			c, err := mkClause("lemma", rest)
			if err != nil {
				return err
			}
			if c.Label == "" {
				c.Label = fmt.Sprintf("L_%d", len(sp.Lemmas)+1)
			}
			sp.Lemmas = append(sp.Lemmas, &Lemma{Label: c.Label, E: c.E, Text: c.Text, Pkg: pkg, Axiom: ax, Using: c.Using, File: path, Props: props})
			cur = nil
		case strings.HasPrefix(l, "refines "):
			// refines "pkg::(*T).M" "pkg::(I).M" [label] coupling <expr> props Cxx
			rest := strings.TrimSpace(l[8:])
			var props []string
			if m := propsRe.FindStringSubmatch(rest); m != nil {
				for _, u := range strings.Split(m[1], ",") {
					props = append(props, strings.TrimSpace(u))
				}
				rest = rest[:len(rest)-len(m[0])]
			}
			// optional: clauses a, b  (only these labelled ensures of the interface contract; the others are ghost definitions)
			m := regexp.MustCompile(`^"([^"]+)"\s+"([^"]+)"\s+\[([A-Za-z0-9_]+)\]\s+(?:clauses\s+([A-Za-z0-9_, ]+?)\s+)?coupling\s+(.*)$`).FindStringSubmatch(rest)
			if m == nil {
				return fail("bad refines directive")
			}
			ce, err := ParseExpr(m[5])
			if err != nil {
				return fail("refines coupling: %v", err)
			}
			rf := &Refinement{Impl: m[1], Iface: m[2], Label: m[3], Coupling: ce, Text: m[5], Pkg: pkg, Props: props, File: path}
			for _, c := range strings.Split(m[4], ",") {
				if c = strings.TrimSpace(c); c != "" {
					rf.Clauses = append(rf.Clauses, c)
				}
			}
			sp.Refines = append(sp.Refines, rf)
			cur = nil
		case strings.HasPrefix(l, "ghost "):
			m := regexp.MustCompile(`^ghost var ([A-Za-z0-9_]+)\s+(.*)$`).FindStringSubmatch(l)
			if m == nil {
				return fail("bad ghost declaration")
			}
			sp.Ghosts[m[1]] = &GhostVar{m[1], strings.TrimSpace(m[2]), pkg}
			sp.GhostOrd = append(sp.GhostOrd, m[1])
			cur = nil
		case strings.HasPrefix(l, "invariant "):
			m := regexp.MustCompile(`^invariant \(([A-Za-z0-9_]+) (\*?[A-Za-z0-9_.]+)\)\s+(.*)$`).FindStringSubmatch(l)
			if m == nil {
				return fail("bad type invariant")
			}
			c, err := mkClause("typeinv", m[3])
			if err != nil {
				return err
			}
			sp.Invs = append(sp.Invs, &TypeInv{m[1], m[2], c, pkg})
			cur = nil
		default:
			return fail("unknown directive %q", l)
		}
	}
	return nil
}

func splitTop(s string, sep byte) []string {
	var out []string
	depth, start := 0, 0
	inStr := false
	for i := 0; i < len(s); i++ {
		c := s[i]
		if c == '"' {
			inStr = !inStr
		}
		if inStr {
			continue
		}
		switch c {
		case '(', '[', '{':
			depth++
		case ')', ']', '}':
			depth--
		}
		if c == sep && depth == 0 {
			out = append(out, s[start:i])
			start = i + 1
		}
	}
	out = append(out, s[start:])
	return out
}

// splitConj splits a goal into its top-level conjuncts (through forall and implication), one query each.
func splitConj(e Expr) []Expr {
	switch x := e.(type) {
	case *EBinary:
		if x.Op == "&&" {
			return append(splitConj(x.X), splitConj(x.Y)...)
		}
		if x.Op == "==>" {
			parts := splitConj(x.Y)
			if len(parts) > 1 {
				var out []Expr
				for _, p := range parts {
					out = append(out, &EBinary{"==>", x.X, p})
				}
				return out
			}
		}
	case *EQuant:
		if x.Forall {
			parts := splitConj(x.Body)
			if len(parts) > 1 {
				var out []Expr
				for _, p := range parts {
					out = append(out, &EQuant{Forall: true, Vars: x.Vars, Triggers: nil, Body: p})
				}
				return out
			}
		}
	}
	return []Expr{e}
}
