package main

import (
	"fmt"
	"os"
)

// tryCounterexample: attempt to turn a failed obligation into a concrete failing input replayed on the real code.
func tryCounterexample(verif, prop string, r *oblResult, rep map[string]interface{}) bool {
	return false
}

func replayFile(path string) int {
	data, err := os.ReadFile(path)
	if err != nil {
		fmt.Println(err)
		return 2
	}
	fmt.Println(string(data))
	return 0
}
