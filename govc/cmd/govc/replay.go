package main

// Counterexample replay.
//
// When an obligation of a function fails, govc asks the solver for a model of a quantifier-free weakening of the failing
// query (the triggered axioms are dropped, sequences are kept short), reads the values of the function's parameters out of
// it, runs the REAL function of the current tree on those values (an in-package test injected with `go test -overlay`,
// nothing is written to the repository) and then lets the solver evaluate the function's own `ensures` clauses on the
// observed (input, output) pair with the full axiomatic prelude. Only if (a) the `requires` clauses provably hold for the
// input, (b) the pinned values are consistent with the assumed background facts and (c) some `ensures` clause is provably
// false for the observed pair, is the input reported as a failing input. A model that does not replay is discarded: the
// violation is then still reported, with `no-failing-input-found`.
//
// Scope: package-level functions and methods on value receivers whose parameters and results are booleans, integers,
// floats, strings, slices of those, or structs of those, and whose ensures clauses mention nothing but parameters and
// results (no heap, no ghost state). Everything else has no replay.

import (
	"context"
	"encoding/json"
	"fmt"
	"go/types"
	"math"
	"math/big"
	"os"
	"os/exec"
	"path/filepath"
	"sort"
	"strconv"
	"strings"
	"time"

	"golang.org/x/tools/go/ssa"
)

const cexMaxSeq = 3

// Cex: a failing input confirmed on the real code.
type Cex struct {
	Func      string            `json:"function"`
	Inputs    map[string]string `json:"inputs"`    // parameter -> value
	GoInputs  map[string]string `json:"go_inputs"` // parameter -> Go expression used by the replay test
	Observed  []string          `json:"observed"` // results of the real function
	Violated  []string          `json:"violated_ensures"`
	TestFile  string            `json:"test_file"`
	PkgDir    string            `json:"package_dir"`
	ModDir    string            `json:"module_dir"`
	TestCmd   string            `json:"test_cmd"`
	FromQuery string            `json:"model_of"`
	Log       []string          `json:"log,omitempty"`
}

// ---------------------------------------------------------------------------------------------------------------
// s-expressions

type sx struct {
	atom string
	list []*sx
	isL  bool
}

func parseSx(s string) []*sx {
	var out []*sx
	i := 0
	var parse func() *sx
	skip := func() {
		for i < len(s) {
			switch {
			case s[i] == ' ' || s[i] == '\n' || s[i] == '\t' || s[i] == '\r':
				i++
			case s[i] == ';':
				for i < len(s) && s[i] != '\n' {
					i++
				}
			default:
				return
			}
		}
	}
	parse = func() *sx {
		skip()
		if i >= len(s) {
			return nil
		}
		switch s[i] {
		case '(':
			i++
			n := &sx{isL: true}
			for {
				skip()
				if i >= len(s) {
					return n
				}
				if s[i] == ')' {
					i++
					return n
				}
				c := parse()
				if c == nil {
					return n
				}
				n.list = append(n.list, c)
			}
		case ')':
			i++
			return nil
		case '"':
			j := i + 1
			for j < len(s) {
				if s[j] == '"' {
					if j+1 < len(s) && s[j+1] == '"' {
						j += 2
						continue
					}
					break
				}
				j++
			}
			a := s[i : j+1]
			i = j + 1
			return &sx{atom: a}
		case '|':
			j := i + 1
			for j < len(s) && s[j] != '|' {
				j++
			}
			a := s[i : j+1]
			i = j + 1
			return &sx{atom: a}
		}
		j := i
		for j < len(s) && !strings.ContainsRune(" \n\t\r()", rune(s[j])) {
			j++
		}
		a := s[i:j]
		i = j
		return &sx{atom: a}
	}
	for {
		skip()
		if i >= len(s) {
			break
		}
		n := parse()
		if n != nil {
			out = append(out, n)
		}
	}
	return out
}

func (n *sx) String() string {
	if !n.isL {
		return n.atom
	}
	var ps []string
	for _, c := range n.list {
		ps = append(ps, c.String())
	}
	return "(" + strings.Join(ps, " ") + ")"
}

// ratOf: the rational denoted by a numeric model value (Int or Real literal, unary minus, division).
func ratOf(n *sx) (*big.Rat, bool) {
	if !n.isL {
		r := new(big.Rat)
		if _, ok := r.SetString(strings.TrimSuffix(n.atom, "?")); ok {
			return r, true
		}
		return nil, false
	}
	if len(n.list) == 2 && n.list[0].atom == "-" {
		r, ok := ratOf(n.list[1])
		if !ok {
			return nil, false
		}
		return r.Neg(r), true
	}
	if len(n.list) == 3 && n.list[0].atom == "/" {
		a, ok1 := ratOf(n.list[1])
		b, ok2 := ratOf(n.list[2])
		if !ok1 || !ok2 || b.Sign() == 0 {
			return nil, false
		}
		return a.Quo(a, b), true
	}
	return nil, false
}

// smtStringValue decodes an SMT-LIB string literal ("" is a quote, \u{X} / \uXXXX escapes) to bytes (code points < 256).
func smtStringValue(a string) (string, bool) {
	if len(a) < 2 || a[0] != '"' || a[len(a)-1] != '"' {
		return "", false
	}
	a = strings.ReplaceAll(a[1:len(a)-1], `""`, `"`)
	var b []byte
	for i := 0; i < len(a); i++ {
		if a[i] == '\\' && i+1 < len(a) && a[i+1] == 'u' {
			if i+2 < len(a) && a[i+2] == '{' {
				j := strings.IndexByte(a[i:], '}')
				if j > 0 {
					v, err := strconv.ParseUint(a[i+3:i+j], 16, 32)
					if err != nil || v > 255 {
						return "", false
					}
					b = append(b, byte(v))
					i += j
					continue
				}
			} else if i+5 < len(a) {
				v, err := strconv.ParseUint(a[i+2:i+6], 16, 32)
				if err == nil {
					if v > 255 {
						return "", false
					}
					b = append(b, byte(v))
					i += 5
					continue
				}
			}
		}
		b = append(b, a[i])
	}
	return string(b), true
}

// smtStringLit: the SMT-LIB literal of a byte string.
func smtStringLit(s string) string {
	var b strings.Builder
	b.WriteByte('"')
	for i := 0; i < len(s); i++ {
		c := s[i]
		switch {
		case c == '"':
			b.WriteString(`""`)
		case c == '\\' || c < 0x20 || c > 0x7e:
			fmt.Fprintf(&b, `\u{%x}`, c)
		default:
			b.WriteByte(c)
		}
	}
	b.WriteByte('"')
	return b.String()
}

// ---------------------------------------------------------------------------------------------------------------
// supported types

func cexSupported(T types.Type, home *types.Package, depth int) bool {
	if depth > 3 {
		return false
	}
	switch u := T.Underlying().(type) {
	case *types.Basic:
		if u.Kind() == types.Uintptr || u.Kind() == types.UnsafePointer {
			return false
		}
		return u.Info()&(types.IsBoolean|types.IsInteger|types.IsFloat|types.IsString) != 0 && u.Info()&types.IsUntyped == 0
	case *types.Slice:
		if _, isStruct := u.Elem().Underlying().(*types.Struct); isStruct && depth > 0 {
			return false
		}
		if depth == 0 && cexNilOnly(T, home) {
			return true // replayed with nil only
		}
		return cexSupported(u.Elem(), home, depth+1)
	case *types.Struct:
		for i := 0; i < u.NumFields(); i++ {
			f := u.Field(i)
			if !f.Exported() && f.Pkg() != home {
				return false
			}
			if !cexSupported(f.Type(), home, depth+1) {
				return false
			}
		}
		return true
	}
	return false
}

// cexNilOnly: a slice whose elements cannot be built by the replay (functions, interfaces, pointers): only nil is tried.
func cexNilOnly(T types.Type, home *types.Package) bool {
	u, ok := T.Underlying().(*types.Slice)
	return ok && !cexSupported(u.Elem(), home, 1)
}

// cexEligible reports whether fn can be replayed, and why not otherwise.
func cexEligible(fn *ssa.Function) (bool, string) {
	if fn == nil || fn.Pkg == nil {
		return false, "no function"
	}
	if fn.Parent() != nil {
		return false, "closure"
	}
	if fn.Signature.TypeParams() != nil || fn.Signature.RecvTypeParams() != nil {
		return false, "generic"
	}
	home := fn.Pkg.Pkg
	for _, p := range fn.Params {
		if !cexSupported(p.Type(), home, 0) {
			return false, fmt.Sprintf("parameter %s has type %s", p.Name(), p.Type())
		}
	}
	res := fn.Signature.Results()
	if res.Len() == 0 {
		return false, "no results"
	}
	for i := 0; i < res.Len(); i++ {
		if cexNilOnly(res.At(i).Type(), home) || !cexSupported(res.At(i).Type(), home, 0) {
			return false, fmt.Sprintf("result %d has type %s", i, res.At(i).Type())
		}
	}
	return true, ""
}

// ---------------------------------------------------------------------------------------------------------------
// values

// cexVal: a concrete value of a supported type.
type cexVal struct {
	T      types.Type
	b      bool
	n      *big.Int
	f      float64
	s      string
	elems  []*cexVal // slice
	fields []*cexVal // struct
	isNil  bool
}

// leafTerms lists the SMT terms whose model values determine a value of type T denoted by term t.
func (fc *FnCtx) leafTerms(t string, T types.Type, out *[]string) {
	switch u := T.Underlying().(type) {
	case *types.Basic:
		*out = append(*out, t)
	case *types.Slice:
		s := fc.P.SortOf(T)
		*out = append(*out, fmt.Sprintf("(len_%s %s)", s, t))
		if cexNilOnly(T, fc.top.Pkg.Pkg) {
			return
		}
		for k := 0; k < cexMaxSeq; k++ {
			fc.leafTerms(fmt.Sprintf("(at_%s %s %d)", s, t, k), u.Elem(), out)
		}
	case *types.Struct:
		s := fc.P.SortOf(T)
		for i := 0; i < u.NumFields(); i++ {
			fc.leafTerms(fmt.Sprintf("(%s_f%d %s)", s, i, t), u.Field(i).Type(), out)
		}
	}
}

// valueFrom builds the value of type T denoted by term t from the model values of its leaf terms.
func (fc *FnCtx) valueFrom(t string, T types.Type, model map[string]*sx) (*cexVal, error) {
	switch u := T.Underlying().(type) {
	case *types.Basic:
		mv := model[t]
		if mv == nil {
			return nil, fmt.Errorf("no model value for %s", t)
		}
		v := &cexVal{T: T}
		switch {
		case u.Info()&types.IsBoolean != 0:
			v.b = mv.atom == "true"
			if mv.atom != "true" && mv.atom != "false" {
				return nil, fmt.Errorf("bad bool %s", mv)
			}
		case u.Info()&types.IsInteger != 0:
			r, ok := ratOf(mv)
			if !ok || !r.IsInt() {
				return nil, fmt.Errorf("bad integer %s", mv)
			}
			v.n = new(big.Int).Set(r.Num())
			if !intFits(v.n, u) {
				return nil, fmt.Errorf("integer %s does not fit %s", v.n, u)
			}
		case u.Info()&types.IsFloat != 0:
			r, ok := ratOf(mv)
			if !ok {
				return nil, fmt.Errorf("bad real %s", mv)
			}
			v.f, _ = r.Float64()
			if u.Kind() == types.Float32 {
				v.f = float64(float32(v.f))
			}
			if math.IsInf(v.f, 0) || math.IsNaN(v.f) {
				return nil, fmt.Errorf("real %s out of range", mv)
			}
		case u.Info()&types.IsString != 0:
			s, ok := smtStringValue(mv.atom)
			if !ok {
				return nil, fmt.Errorf("bad string %s", mv)
			}
			v.s = s
		}
		return v, nil
	case *types.Slice:
		s := fc.P.SortOf(T)
		lv := model[fmt.Sprintf("(len_%s %s)", s, t)]
		if lv == nil {
			return nil, fmt.Errorf("no length for %s", t)
		}
		r, ok := ratOf(lv)
		if !ok || !r.IsInt() || r.Sign() < 0 || r.Num().Int64() > cexMaxSeq {
			return nil, fmt.Errorf("length %s of %s out of the replay range", lv, t)
		}
		v := &cexVal{T: T, isNil: r.Sign() == 0}
		if cexNilOnly(T, fc.top.Pkg.Pkg) {
			if r.Sign() != 0 {
				return nil, fmt.Errorf("%s can only be replayed as nil", t)
			}
			return v, nil
		}
		for k := 0; k < int(r.Num().Int64()); k++ {
			e, err := fc.valueFrom(fmt.Sprintf("(at_%s %s %d)", s, t, k), u.Elem(), model)
			if err != nil {
				return nil, err
			}
			v.elems = append(v.elems, e)
		}
		return v, nil
	case *types.Struct:
		s := fc.P.SortOf(T)
		v := &cexVal{T: T}
		for i := 0; i < u.NumFields(); i++ {
			f, err := fc.valueFrom(fmt.Sprintf("(%s_f%d %s)", s, i, t), u.Field(i).Type(), model)
			if err != nil {
				return nil, err
			}
			v.fields = append(v.fields, f)
		}
		return v, nil
	}
	return nil, fmt.Errorf("unsupported type %s", T)
}

func intFits(n *big.Int, b *types.Basic) bool {
	bits, signed := 64, true
	switch b.Kind() {
	case types.Int8:
		bits = 8
	case types.Int16:
		bits = 16
	case types.Int32:
		bits = 32
	case types.Uint8:
		bits, signed = 8, false
	case types.Uint16:
		bits, signed = 16, false
	case types.Uint32:
		bits, signed = 32, false
	case types.Uint, types.Uint64:
		bits, signed = 64, false
	}
	lo, hi := new(big.Int), new(big.Int)
	if signed {
		lo.Neg(new(big.Int).Lsh(big.NewInt(1), uint(bits-1)))
		hi.Sub(new(big.Int).Lsh(big.NewInt(1), uint(bits-1)), big.NewInt(1))
	} else {
		hi.Sub(new(big.Int).Lsh(big.NewInt(1), uint(bits)), big.NewInt(1))
	}
	return n.Cmp(lo) >= 0 && n.Cmp(hi) <= 0
}

// goExpr: the Go expression of a value (types qualified by q).
func (v *cexVal) goExpr(q types.Qualifier) string {
	ts := types.TypeString(v.T, q)
	switch u := v.T.Underlying().(type) {
	case *types.Basic:
		switch {
		case u.Info()&types.IsBoolean != 0:
			return fmt.Sprintf("%s(%v)", ts, v.b)
		case u.Info()&types.IsInteger != 0:
			return fmt.Sprintf("%s(%s)", ts, v.n)
		case u.Info()&types.IsFloat != 0:
			return fmt.Sprintf("%s(math.Float64frombits(0x%x))", ts, math.Float64bits(v.f))
		default:
			return fmt.Sprintf("%s(%q)", ts, v.s)
		}
	case *types.Slice:
		if v.isNil {
			return fmt.Sprintf("%s(nil)", ts)
		}
		var es []string
		for _, e := range v.elems {
			es = append(es, e.goExpr(q))
		}
		return fmt.Sprintf("%s{%s}", ts, strings.Join(es, ", "))
	case *types.Struct:
		var fs []string
		for i, f := range v.fields {
			fs = append(fs, fmt.Sprintf("%s: %s", u.Field(i).Name(), f.goExpr(q)))
		}
		return fmt.Sprintf("%s{%s}", ts, strings.Join(fs, ", "))
	}
	return "nil"
}

// show: a short human-readable rendering.
func (v *cexVal) show() string {
	switch u := v.T.Underlying().(type) {
	case *types.Basic:
		switch {
		case u.Info()&types.IsBoolean != 0:
			return fmt.Sprint(v.b)
		case u.Info()&types.IsInteger != 0:
			return v.n.String()
		case u.Info()&types.IsFloat != 0:
			return strconv.FormatFloat(v.f, 'g', -1, 64)
		default:
			return strconv.Quote(v.s)
		}
	case *types.Slice:
		if v.isNil {
			return "nil"
		}
		var es []string
		for _, e := range v.elems {
			es = append(es, e.show())
		}
		return "[" + strings.Join(es, " ") + "]"
	case *types.Struct:
		var fs []string
		for i, f := range v.fields {
			fs = append(fs, u.Field(i).Name()+":"+f.show())
		}
		return "{" + strings.Join(fs, " ") + "}"
	}
	return "?"
}

// smtTerm: the ground SMT term of a value under the axiomatic (non-small) prelude.
func (fc *FnCtx) smtTerm(v *cexVal) string {
	switch u := v.T.Underlying().(type) {
	case *types.Basic:
		switch {
		case u.Info()&types.IsBoolean != 0:
			return fmt.Sprint(v.b)
		case u.Info()&types.IsInteger != 0:
			if v.n.Sign() < 0 {
				return fmt.Sprintf("(- %s)", new(big.Int).Neg(v.n))
			}
			return v.n.String()
		case u.Info()&types.IsFloat != 0:
			r := new(big.Rat)
			r.SetFloat64(v.f)
			num, den := r.Num(), r.Denom()
			s := fmt.Sprintf("(/ %s.0 %s.0)", new(big.Int).Abs(num), den)
			if num.Sign() < 0 {
				s = "(- " + s + ")"
			}
			return s
		default:
			return smtStringLit(v.s)
		}
	case *types.Slice:
		s := fc.P.SortOf(v.T)
		t := "emptynn_" + s
		if v.isNil {
			t = "empty_" + s
		}
		for _, e := range v.elems {
			t = fmt.Sprintf("(build_%s %s %s)", s, t, fc.smtTerm(e))
		}
		return t
	case *types.Struct:
		s := fc.P.SortOf(v.T)
		if len(v.fields) == 0 {
			return "mk_" + s
		}
		var fs []string
		for _, f := range v.fields {
			fs = append(fs, fc.smtTerm(f))
		}
		return fmt.Sprintf("(mk_%s %s)", s, strings.Join(fs, " "))
	}
	return "0"
}

// eqTerm: the SMT formula "term t denotes value v" over the leaf terms of t.
func (fc *FnCtx) eqTerm(t string, v *cexVal) string {
	switch u := v.T.Underlying().(type) {
	case *types.Basic:
		return fmt.Sprintf("(= %s %s)", t, fc.smtTerm(v))
	case *types.Slice:
		s := fc.P.SortOf(v.T)
		ps := []string{fmt.Sprintf("(= (len_%s %s) %d)", s, t, len(v.elems))}
		for k, e := range v.elems {
			ps = append(ps, fc.eqTerm(fmt.Sprintf("(at_%s %s %d)", s, t, k), e))
		}
		return "(and " + strings.Join(ps, " ") + ")"
	case *types.Struct:
		s := fc.P.SortOf(v.T)
		ps := []string{"true"}
		for i := 0; i < u.NumFields(); i++ {
			ps = append(ps, fc.eqTerm(fmt.Sprintf("(%s_f%d %s)", s, i, t), v.fields[i]))
		}
		return "(and " + strings.Join(ps, " ") + ")"
	}
	return "true"
}

// fromJSON rebuilds a value of type T from the dump printed by the replay test.
func cexFromJSON(T types.Type, j interface{}) (*cexVal, error) {
	v := &cexVal{T: T}
	switch u := T.Underlying().(type) {
	case *types.Basic:
		m, ok := j.(map[string]interface{})
		if !ok {
			return nil, fmt.Errorf("bad dump %v", j)
		}
		switch {
		case u.Info()&types.IsBoolean != 0:
			v.b, _ = m["b"].(bool)
		case u.Info()&types.IsInteger != 0:
			s, _ := m["i"].(string)
			n, ok := new(big.Int).SetString(s, 10)
			if !ok {
				return nil, fmt.Errorf("bad int dump %v", j)
			}
			v.n = n
		case u.Info()&types.IsFloat != 0:
			s, _ := m["f"].(string)
			bits, err := strconv.ParseUint(s, 16, 64)
			if err != nil {
				return nil, err
			}
			v.f = math.Float64frombits(bits)
			if math.IsInf(v.f, 0) || math.IsNaN(v.f) {
				return nil, fmt.Errorf("non-finite float result")
			}
		default:
			s, _ := m["s"].(string)
			raw, err := strconv.Unquote(s)
			if err != nil {
				return nil, err
			}
			v.s = raw
		}
		return v, nil
	case *types.Slice:
		if j == nil {
			v.isNil = true
			return v, nil
		}
		l, ok := j.([]interface{})
		if !ok {
			return nil, fmt.Errorf("bad slice dump %v", j)
		}
		if len(l) > 8 {
			return nil, fmt.Errorf("result slice of %d elements is too long to pin", len(l))
		}
		for _, e := range l {
			ev, err := cexFromJSON(u.Elem(), e)
			if err != nil {
				return nil, err
			}
			v.elems = append(v.elems, ev)
		}
		return v, nil
	case *types.Struct:
		l, ok := j.([]interface{})
		if !ok || len(l) != u.NumFields() {
			return nil, fmt.Errorf("bad struct dump %v", j)
		}
		for i, e := range l {
			fv, err := cexFromJSON(u.Field(i).Type(), e)
			if err != nil {
				return nil, err
			}
			v.fields = append(v.fields, fv)
		}
		return v, nil
	}
	return nil, fmt.Errorf("unsupported")
}

// ---------------------------------------------------------------------------------------------------------------
// the search

// stripQuantified drops every top-level command that contains a quantifier (a weakening: fewer hypotheses), except the
// last assertion (the negated goal), which is kept whenever it is quantifier-free.
func stripQuantified(script string) string {
	var out []string
	for _, l := range strings.Split(script, "\n") {
		if strings.Contains(l, "(forall ") || strings.Contains(l, "(exists ") {
			continue
		}
		if strings.HasPrefix(l, "(check-sat") {
			continue
		}
		out = append(out, l)
	}
	return strings.Join(out, "\n") + "\n"
}

// raceSolvers runs the script on the three solvers at once and returns the first answer of the wanted class
// ("sat" with its output, or "unsat"); otherwise the first other answer.
func raceSolvers(script, file, want string, secs int) (class, out string) {
	os.WriteFile(file, []byte(script), 0o644)
	type ans struct{ class, out string }
	ctx, cancel := context.WithCancel(context.Background())
	defer cancel()
	ch := make(chan ans, len(solvers))
	for _, s := range solvers {
		s := s
		go func() {
			c, o, _ := runSolverCtx(ctx, s, file, secs)
			ch <- ans{c, o}
		}()
	}
	var other *ans
	for range solvers {
		a := <-ch
		if a.class == want {
			return a.class, a.out
		}
		if other == nil || (other.class != "sat" && other.class != "unsat" && (a.class == "sat" || a.class == "unsat")) {
			b := a
			other = &b
		}
	}
	return other.class, other.out
}

// modelValues runs script + get-value(terms) and returns term -> value (nil if no solver answers sat).
func modelValues(script string, terms []string, file string) map[string]*sx {
	full := script + "(check-sat)\n(get-value (" + strings.Join(terms, " ") + "))\n"
	class, out := raceSolvers(full, file, "sat", 10)
	if class != "sat" {
		return nil
	}
	i := strings.Index(out, "sat")
	rest := out[i+3:]
	xs := parseSx(rest)
	if len(xs) == 0 || !xs[0].isL {
		return nil
	}
	m := map[string]*sx{}
	for i, pair := range xs[0].list {
		if pair.isL && len(pair.list) == 2 && i < len(terms) {
			m[terms[i]] = pair.list[1]
		}
	}
	return m
}

type cexClause struct{ label, term string }

type cexParam struct {
	name string
	term string
	T    types.Type
}

// searchCex looks for an input on which the real function violates one of its own ensures clauses.
// fc is the (normal-prelude) verification context of the function; failing are its failed obligations.
func (e *Engine) searchCex(fc *FnCtx, failing []*Verdict, work string, logOut *[]string) *Cex {
	fn := fc.top
	ctr := fc.contract
	if ok, _ := cexEligible(fn); !ok || ctr == nil {
		return nil
	}
	fr := fc.topFr
	var logs []string
	logf := func(f string, a ...interface{}) {
		logs = append(logs, fmt.Sprintf(f, a...))
		*logOut = logs
	}
	if fr == nil {
		logf("no frame of the function among the failed obligations")
		return nil
	}
	var params []cexParam
	var leaves []string
	for _, p := range fn.Params {
		t := fr.vals[p]
		params = append(params, cexParam{p.Name(), t, p.Type()})
		fc.leafTerms(t, p.Type(), &leaves)
	}
	// the ensures clauses, over fresh result constants, in the entry state (clauses that mention anything else are skipped)
	res := fn.Signature.Results()
	var resConsts []string
	env := fr.baseEnv(fc.entry)
	env.lookup = func(name string, s *State) (TV, bool) { return fr.paramLookup(name, s) }
	for i := 0; i < res.Len(); i++ {
		c := fc.declare(fmt.Sprintf("cex_res%d", i), fc.P.SortOf(res.At(i).Type()))
		resConsts = append(resConsts, c)
		tv := TV{c, fc.P.SortOf(res.At(i).Type()), res.At(i).Type()}
		env.names[fmt.Sprintf("result%d", i)] = tv
		if i == 0 {
			env.names["result"] = tv
		}
		if n := res.At(i).Name(); n != "" && n != "_" {
			env.names[n] = tv
		}
	}
	allowed := map[string]bool{}
	for _, p := range params {
		allowed[p.term] = true
	}
	for _, c := range resConsts {
		allowed[c] = true
	}
	var ens []cexClause
	nErr := len(fc.errs)
	for _, c := range ctr.Ensures {
		nd := len(fc.decls)
		var term string
		func() {
			defer func() {
				if r := recover(); r != nil {
					term = ""
				}
			}()
			term = env.tr(c.E).T
		}()
		if len(fc.errs) > nErr {
			fc.errs = fc.errs[:nErr]
			continue
		}
		if term == "" || len(fc.decls) != nd && mentionsNew(term, fc.decls[nd:]) {
			logf("ensures %s: not evaluable on inputs and results alone", c.Label)
			continue
		}
		if !onlyAllowedConsts(term, fc, allowed) {
			logf("ensures %s: mentions state other than parameters and results", c.Label)
			continue
		}
		ens = append(ens, cexClause{c.Label, term})
	}
	if len(ens) == 0 {
		logf("no ensures clause can be evaluated on inputs and results alone")
		return nil
	}
	// the requires clauses as goals (not skolemised): they have to be proved for the candidate input
	var reqs []string
	envPre := fr.baseEnv(fc.entry)
	envPre.old = nil
	envPre.lookup = func(name string, s *State) (TV, bool) { return fr.paramLookup(name, s) }
	for _, c := range ctr.Requires {
		var term string
		func() {
			defer func() {
				if r := recover(); r != nil {
					term = "false"
				}
			}()
			term = envPre.tr(c.E).T
		}()
		reqs = append(reqs, term)
	}
	if len(fc.errs) > nErr {
		fc.errs = fc.errs[:nErr]
	}
	// background for evaluation: prelude, declarations, axioms and every pre-state fact except the requires clauses
	var bg strings.Builder
	axioms := fc.axiomFacts(nil)
	bg.WriteString("(set-option :produce-models true)\n(set-logic ALL)\n")
	bg.WriteString(fc.P.String())
	for _, d := range fc.decls {
		bg.WriteString(d + "\n")
	}
	for _, a := range axioms {
		bg.WriteString(a + "\n")
	}
	for i, f := range fc.facts {
		if i >= fc.nPreFacts {
			break
		}
		if strings.HasPrefix(f.Tag, "pre:") {
			continue // assumed (skolemised) form of a requires clause: never part of the evaluation background
		}
		bg.WriteString(f.Text + "\n")
	}
	// candidates: models of the failing queries with the quantified hypotheses dropped and short sequences
	seen := map[string]bool{}
	tried := 0
	// shape hints, tried in turn for every failing query: all slices non-empty first (the quantifier-free weakening has lost
	// what the axioms say about sequences, so the solver would otherwise mostly pick nil), then no hint
	var bound, nonEmpty strings.Builder
	for _, p := range params {
		if _, isSlice := p.T.Underlying().(*types.Slice); isSlice {
			l := fmt.Sprintf("(len_%s %s)", fc.P.SortOf(p.T), p.term)
			if cexNilOnly(p.T, fn.Pkg.Pkg) {
				fmt.Fprintf(&bound, "(assert (= %s 0))\n", l)
			} else {
				fmt.Fprintf(&nonEmpty, "(assert (>= %s 1))\n", l)
			}
		}
	}
	for _, l := range leaves {
		if strings.HasPrefix(l, "(len_") {
			fmt.Fprintf(&bound, "(assert (and (<= 0 %s) (<= %s %d)))\n", l, l, cexMaxSeq)
		}
	}
	hints := []string{""}
	if nonEmpty.Len() > 0 {
		hints = []string{nonEmpty.String(), ""}
	}
	const maxTried = 8
	for _, v := range failing {
		if tried >= maxTried || v.Obl == nil {
			break
		}
		q := stripQuantified(fc.QueryOpt(v.Obl, true, false))
		for hi, hint := range hints {
			block := ""
			for round := 0; round < 3 && tried < maxTried; round++ {
				file := filepath.Join(work, fmt.Sprintf("cex_%s_%s_%d_%d.smt2", mangle(shortObl(v.Obl.Name())), mangle(v.Obl.Site), hi, round))
				model := modelValues(q+bound.String()+hint+block, leaves, file)
				if model == nil {
					if round == 0 {
						logf("%s@%s: no model of the quantifier-free weakening", shortObl(v.Obl.Name()), v.Obl.Site)
					}
					break
				}
				var vals []*cexVal
				var blk []string
				bad := false
				for _, p := range params {
					pv, err := fc.valueFrom(p.term, p.T, model)
					if err != nil {
						logf("%s: %v", p.name, err)
						bad = true
						break
					}
					vals = append(vals, pv)
					blk = append(blk, fc.eqTerm(p.term, pv))
				}
				if bad {
					break
				}
				block += "(assert (not (and " + strings.Join(blk, " ") + " true)))\n"
				var key []string
				for _, pv := range vals {
					key = append(key, pv.show())
				}
				k := strings.Join(key, ",")
				if seen[k] {
					continue
				}
				seen[k] = true
				tried++
				cex := e.replayCandidate(fc, fn, params, vals, resConsts, bg.String(), reqs, ens, work, tried, logf)
				if cex != nil {
					cex.FromQuery = v.Obl.Name() + "@" + v.Obl.Site
					cex.Log = logs
					return cex
				}
			}
		}
	}
	return nil
}

func mentionsNew(term string, decls []string) bool {
	for _, d := range decls {
		f := strings.Fields(strings.TrimPrefix(d, "(declare-fun "))
		if len(f) > 0 && strings.Contains(term, f[0]) {
			return true
		}
	}
	return false
}

// onlyAllowedConsts: every declared nullary constant that occurs in term is a parameter or a result constant.
func onlyAllowedConsts(term string, fc *FnCtx, allowed map[string]bool) bool {
	toks := map[string]bool{}
	for _, t := range strings.FieldsFunc(term, func(r rune) bool { return r == '(' || r == ')' || r == ' ' }) {
		toks[t] = true
	}
	for _, d := range fc.decls {
		if !strings.HasPrefix(d, "(declare-fun ") {
			continue
		}
		rest := strings.TrimPrefix(d, "(declare-fun ")
		sp := strings.IndexByte(rest, ' ')
		if sp < 0 {
			continue
		}
		name := rest[:sp]
		if !strings.HasPrefix(strings.TrimSpace(rest[sp:]), "()") {
			continue // a function symbol: uninterpreted, any interpretation is covered by an unsat answer
		}
		if toks[name] && !allowed[name] {
			return false
		}
	}
	return true
}

func firstLine(s string) string {
	return strings.TrimSpace(strings.SplitN(strings.TrimSpace(s), "\n", 2)[0])
}

// replayCandidate runs the real function on vals and evaluates the contract on what it returned.
func (e *Engine) replayCandidate(fc *FnCtx, fn *ssa.Function, params []cexParam, vals []*cexVal, resConsts []string, bg string, reqs []string, ens []cexClause, work string, n int, logf func(string, ...interface{})) *Cex {
	var pins strings.Builder
	inputs := map[string]string{}
	var shown []string
	for i, p := range params {
		fmt.Fprintf(&pins, "(assert (= %s %s))\n", p.term, fc.smtTerm(vals[i]))
		shown = append(shown, p.name+"="+vals[i].show())
	}
	// refuted: pins + assertion is unsatisfiable, first under the whole background, then under its quantifier-free part
	// (dropping hypotheses keeps an unsat answer sound and spares the solver the triggered axioms)
	bgQF := stripQuantified(bg)
	refuted := func(assertion, file string) (bool, string) {
		out, _ := raceSolvers(bgQF+pins.String()+assertion+"(check-sat)\n", filepath.Join(work, file+"_qf.smt2"), "unsat", 10)
		if out == "unsat" {
			return true, out
		}
		out, _ = raceSolvers(bg+pins.String()+assertion+"(check-sat)\n", filepath.Join(work, file+".smt2"), "unsat", 10)
		return out == "unsat", out
	}
	// (a) the requires clauses provably hold for the input
	if len(reqs) > 0 {
		if ok, out := refuted("(assert (not (and "+strings.Join(reqs, " ")+" true)))\n", fmt.Sprintf("cex_req_%d", n)); !ok {
			logf("candidate %s: the requires clauses are not provably satisfied (%s)", strings.Join(shown, " "), out)
			return nil
		}
	}
	src, imports, call := cexTestSource(fn, params, vals)
	_ = imports
	observed, panicked, testFile, cmd, err := e.runReplayTest(fn, src, work, n)
	if err != nil {
		logf("candidate %s: replay did not run: %v", strings.Join(shown, " "), err)
		return nil
	}
	if panicked != "" {
		logf("candidate %s: the real function panicked: %s", strings.Join(shown, " "), panicked)
		return nil
	}
	res := fn.Signature.Results()
	if len(observed) != res.Len() {
		logf("candidate %s: replay printed %d results", strings.Join(shown, " "), len(observed))
		return nil
	}
	var obs []string
	for i := 0; i < res.Len(); i++ {
		rv, err := cexFromJSON(res.At(i).Type(), observed[i])
		if err != nil {
			logf("candidate %s: result %d: %v", strings.Join(shown, " "), i, err)
			return nil
		}
		fmt.Fprintf(&pins, "(assert (= %s %s))\n", resConsts[i], fc.smtTerm(rv))
		obs = append(obs, rv.show())
	}
	// (b) the pinned values are consistent with the background facts (an unsat answer here would make (c) meaningless)
	if cls, _ := raceSolvers(bgQF+pins.String()+"(check-sat)\n", filepath.Join(work, fmt.Sprintf("cex_bgqf_%d.smt2", n)), "unsat", 10); cls == "unsat" {
		logf("candidate %s: pinned values contradict the background facts", strings.Join(shown, " "))
		return nil
	}
	if cls, _ := raceSolvers(bg+pins.String()+"(check-sat)\n", filepath.Join(work, fmt.Sprintf("cex_bg_%d.smt2", n)), "unsat", 10); cls == "unsat" {
		logf("candidate %s: pinned values contradict the background facts", strings.Join(shown, " "))
		return nil
	}
	// (c) some ensures clause is provably false on the observed pair (and its negation is not refuted as well)
	var violated []string
	for _, c := range ens {
		if ok, _ := refuted("(assert "+c.term+")\n", fmt.Sprintf("cex_ens_%d_%s", n, mangle(c.label))); ok {
			if both, _ := refuted("(assert (not "+c.term+"))\n", fmt.Sprintf("cex_nens_%d_%s", n, mangle(c.label))); both {
				logf("candidate %s: clause %s and its negation are both refuted: inconsistent evaluation context, ignored", strings.Join(shown, " "), c.label)
				continue
			}
			violated = append(violated, c.label)
		}
	}
	if len(violated) == 0 {
		logf("candidate %s -> %s: every evaluable ensures clause holds on the real code", strings.Join(shown, " "), strings.Join(obs, ", "))
		return nil
	}
	q := cexQualifier(fn.Pkg.Pkg, map[string]string{})
	goInputs := map[string]string{}
	for i, p := range params {
		inputs[p.name] = vals[i].show()
		goInputs[p.name] = vals[i].goExpr(q)
	}
	pkgDir, modDir := cexDirs(fn)
	return &Cex{Func: fc.key, PkgDir: pkgDir, ModDir: modDir, Inputs: inputs, GoInputs: goInputs, Observed: obs, Violated: violated, TestFile: testFile, TestCmd: cmd + "   # " + call}
}

func cexQualifier(home *types.Package, imports map[string]string) types.Qualifier {
	return func(p *types.Package) string {
		if p == home {
			return ""
		}
		alias := "cexpkg_" + mangle(p.Name())
		for a, path := range imports {
			if path == p.Path() {
				return a
			}
		}
		for {
			if _, taken := imports[alias]; !taken {
				break
			}
			alias += "x"
		}
		imports[alias] = p.Path()
		return alias
	}
}

// cexTestSource: the in-package test that calls fn on vals and dumps what it returns.
func cexTestSource(fn *ssa.Function, params []cexParam, vals []*cexVal) (src string, imports map[string]string, call string) {
	imports = map[string]string{}
	q := cexQualifier(fn.Pkg.Pkg, imports)
	var b strings.Builder
	var args []string
	var body strings.Builder
	for i, p := range params {
		ex := vals[i].goExpr(q)
		fmt.Fprintf(&body, "\ta%d := %s\n", i, ex)
		args = append(args, fmt.Sprintf("a%d", i))
		_ = p
	}
	res := fn.Signature.Results()
	var rs []string
	for i := 0; i < res.Len(); i++ {
		rs = append(rs, fmt.Sprintf("r%d", i))
	}
	callee := fn.Name()
	callArgs := args
	if fn.Signature.Recv() != nil {
		callee = "a0." + fn.Name()
		callArgs = args[1:]
	}
	if fn.Signature.Variadic() && len(callArgs) > 0 {
		callArgs = append(append([]string{}, callArgs[:len(callArgs)-1]...), callArgs[len(callArgs)-1]+"...")
	}
	call = fmt.Sprintf("%s(%s)", callee, strings.Join(callArgs, ", "))
	fmt.Fprintf(&body, "\t%s := %s\n", strings.Join(rs, ", "), call)
	for _, r := range rs {
		fmt.Fprintf(&body, "\tfmt.Printf(\"GOVC-CEX-OUT %%s\\n\", govcCexDump(reflect.ValueOf(%s)))\n", r)
	}
	fmt.Fprintf(&b, "package %s\n\nimport (\n\t\"fmt\"\n\t\"reflect\"\n\t\"strconv\"\n\t\"strings\"\n\t\"testing\"\n\t\"math\"\n", fn.Pkg.Pkg.Name())
	var al []string
	for a := range imports {
		al = append(al, a)
	}
	sort.Strings(al)
	for _, a := range al {
		fmt.Fprintf(&b, "\t%s %q\n", a, imports[a])
	}
	b.WriteString(")\n\n")
	b.WriteString(`// generated by govc: replay of a solver model on the real function
func TestGovcCex(t *testing.T) {
	defer func() {
		if r := recover(); r != nil {
			fmt.Printf("GOVC-CEX-PANIC %v\n", r)
		}
	}()
`)
	b.WriteString(body.String())
	b.WriteString("}\n\n")
	b.WriteString(`func govcCexDump(v reflect.Value) string {
	switch v.Kind() {
	case reflect.Bool:
		return fmt.Sprintf("{\"b\":%v}", v.Bool())
	case reflect.Int, reflect.Int8, reflect.Int16, reflect.Int32, reflect.Int64:
		return fmt.Sprintf("{\"i\":\"%d\"}", v.Int())
	case reflect.Uint, reflect.Uint8, reflect.Uint16, reflect.Uint32, reflect.Uint64:
		return fmt.Sprintf("{\"i\":\"%d\"}", v.Uint())
	case reflect.Float32, reflect.Float64:
		return fmt.Sprintf("{\"f\":\"%x\"}", math.Float64bits(v.Float()))
	case reflect.String:
		return fmt.Sprintf("{\"s\":%s}", strconv.Quote(strconv.Quote(v.String())))
	case reflect.Slice:
		if v.IsNil() {
			return "null"
		}
		var es []string
		for i := 0; i < v.Len(); i++ {
			es = append(es, govcCexDump(v.Index(i)))
		}
		return "[" + strings.Join(es, ",") + "]"
	case reflect.Struct:
		var es []string
		for i := 0; i < v.NumField(); i++ {
			es = append(es, govcCexDump(v.Field(i)))
		}
		return "[" + strings.Join(es, ",") + "]"
	}
	return "\"?\""
}

var _ = math.Float64bits
`)
	src = b.String()
	return src, imports, call
}

// runReplayTest injects src as an in-package test through a build overlay and runs it on the current tree.
func (e *Engine) runReplayTest(fn *ssa.Function, src, work string, n int) (observed []interface{}, panicked, testFile, cmdline string, err error) {
	dir, _ := cexDirs(fn)
	if dir == "" {
		return nil, "", "", "", fmt.Errorf("no source position")
	}
	testFile = filepath.Join(work, fmt.Sprintf("cex_%d_test.go.txt", n))
	os.WriteFile(testFile, []byte(src), 0o644)
	extra := map[string]string{}
	// selftest: the patched sources are part of the tree under test
	for f, data := range e.Overlay {
		pf := filepath.Join(work, fmt.Sprintf("cex_ov_%x.go.txt", hashString(f)))
		os.WriteFile(pf, data, 0o644)
		extra[f] = pf
	}
	return runCexTest(dir, testFile, filepath.Join(work, fmt.Sprintf("cex_%d_overlay.json", n)), extra)
}

// cexDirs: the directory of fn's package and of the module that contains it.
func cexDirs(fn *ssa.Function) (dir, mod string) {
	pos := fn.Prog.Fset.Position(fn.Pos())
	if !pos.IsValid() {
		return "", ""
	}
	dir = filepath.Dir(pos.Filename)
	return dir, moduleOf(dir)
}

func moduleOf(dir string) string {
	mod := dir
	for mod != "/" {
		if _, err := os.Stat(filepath.Join(mod, "go.mod")); err == nil {
			break
		}
		mod = filepath.Dir(mod)
	}
	return mod
}

// runCexTest maps testFile into the package directory dir through a build overlay and runs it there.
func runCexTest(dir, testFile, ovFile string, extra map[string]string) (observed []interface{}, panicked, tf, cmdline string, err error) {
	ov := map[string]string{filepath.Join(dir, "zz_govc_cex_test.go"): testFile}
	for k, v := range extra {
		ov[k] = v
	}
	writeJSON(ovFile, map[string]interface{}{"Replace": ov})
	mod := moduleOf(dir)
	rel, _ := filepath.Rel(mod, dir)
	args := []string{"test", "-overlay", ovFile, "-vet=off", "-count=1", "-timeout", "60s", "-run", "^TestGovcCex$", "-v", "./" + rel}
	ctx, cancel := context.WithTimeout(context.Background(), 240*time.Second)
	defer cancel()
	cmd := exec.CommandContext(ctx, "go", args...)
	cmd.Dir = mod
	cmd.Env = append(os.Environ(), "GOFLAGS=-mod=mod", "GOPROXY=off", "GOSUMDB=off", "GOTOOLCHAIN=local")
	if gw := goWorkOf(mod); gw != "" {
		// inside a workspace -mod=mod is rejected
		cmd.Env = append(os.Environ(), "GOFLAGS=", "GOPROXY=off", "GOSUMDB=off", "GOTOOLCHAIN=local")
	}
	out, _ := cmd.CombinedOutput()
	cmdline = fmt.Sprintf("(cd %s && go %s)", mod, strings.Join(args, " "))
	sawRun := false
	for _, l := range strings.Split(string(out), "\n") {
		l = strings.TrimSpace(l)
		switch {
		case strings.HasPrefix(l, "GOVC-CEX-OUT "):
			var j interface{}
			if err := json.Unmarshal([]byte(strings.TrimPrefix(l, "GOVC-CEX-OUT ")), &j); err != nil {
				return nil, "", testFile, cmdline, fmt.Errorf("bad dump line %q", l)
			}
			observed = append(observed, j)
		case strings.HasPrefix(l, "GOVC-CEX-PANIC "):
			panicked = strings.TrimPrefix(l, "GOVC-CEX-PANIC ")
		case strings.HasPrefix(l, "=== RUN   TestGovcCex"):
			sawRun = true
		}
	}
	if !sawRun {
		o := string(out)
		if len(o) > 600 {
			o = o[len(o)-600:]
		}
		return nil, "", testFile, cmdline, fmt.Errorf("go test did not run the replay: %s", o)
	}
	if os.Getenv("GOVC_REPLAY_VERBOSE") != "" {
		fmt.Println(string(out))
	}
	return observed, panicked, testFile, cmdline, nil
}

func goWorkOf(dir string) string {
	cmd := exec.Command("go", "env", "GOWORK")
	cmd.Dir = dir
	cmd.Env = append(os.Environ(), "GOTOOLCHAIN=local")
	out, _ := cmd.Output()
	s := strings.TrimSpace(string(out))
	if s == "off" {
		return ""
	}
	return s
}

// tryCounterexample attaches a confirmed failing input (if the run found one) to the replay record.
func tryCounterexample(verif, prop string, r *oblResult, rep map[string]interface{}) bool {
	if r.cex == nil {
		if len(r.cexLog) > 0 {
			rep["counterexample_search"] = r.cexLog
		}
		return false
	}
	// keep the replay test beside the replay record (work/ is wiped on the next run)
	dst := filepath.Join(verif, "replays", fmt.Sprintf("%s-%s_cex_test.go.txt", prop, mangle(r.Name)))
	if data, err := os.ReadFile(r.cex.TestFile); err == nil {
		os.WriteFile(dst, data, 0o644)
		r.cex.TestFile = dst
	}
	r.cex.TestCmd = fmt.Sprintf("%s/bin/govc replay %s", verif, filepath.Join(verif, "replays", fmt.Sprintf("%s-%s.json", prop, mangle(r.Name))))
	rep["counterexample"] = r.cex
	rep["how_to_replay"] = "run test_cmd: it maps test_file into package_dir as zz_govc_cex_test.go with `go test -overlay` (nothing is written to the repository), runs the real function on the inputs and compares what it returns with `observed`, the values on which the listed ensures clauses are false"
	return true
}

// replayFile prints a replay record and, if it carries a failing input, runs the real function on it again.
func replayFile(path string) int {
	data, err := os.ReadFile(path)
	if err != nil {
		fmt.Println(err)
		return 2
	}
	fmt.Println(string(data))
	var rep struct {
		Cex *Cex `json:"counterexample"`
	}
	if json.Unmarshal(data, &rep) != nil || rep.Cex == nil {
		fmt.Println("govc replay: this record carries no failing input (no-failing-input-found): nothing to run")
		return 0
	}
	tmp, _ := os.MkdirTemp("", "govc-replay")
	defer os.RemoveAll(tmp)
	os.Setenv("GOVC_REPLAY_VERBOSE", "1")
	observed, panicked, _, cmdline, err := runCexTest(rep.Cex.PkgDir, rep.Cex.TestFile, filepath.Join(tmp, "overlay.json"), nil)
	fmt.Println("govc replay:", cmdline)
	if err != nil {
		fmt.Println("govc replay: the replay did not run:", err)
		return 2
	}
	if panicked != "" {
		fmt.Println("govc replay: the function panicked:", panicked)
		return 1
	}
	fmt.Printf("govc replay: the real function returned %v; the record says %v (on which ensures %v is false)\n", observed, rep.Cex.Observed, rep.Cex.Violated)
	return 1
}
