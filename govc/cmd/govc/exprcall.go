package main

import (
	"golang.org/x/tools/go/ssa"
	"fmt"
	"go/types"
	"strings"
)

func (env *Env) call(e *ECall) TV {
	fc := env.fc
	P := fc.P
	B := types.Typ[types.Bool]
	I := types.Typ[types.Int]
	arg := func(i int) TV { return env.tr(e.Args[i]) }
	need := func(n int) bool {
		if len(e.Args) != n {
			env.fail("%s expects %d arguments", e.Fun, n)
			return false
		}
		return true
	}
	switch e.Fun {
	case "old":
		if !need(1) {
			return TV{"false", "Bool", B}
		}
		if env.old == nil {
			return arg(0)
		}
		sub := *env
		sub.cur = env.old
		return sub.tr(e.Args[0])
	case "atloop":
		// atloop(k, e): e evaluated in the state in which loop k was first entered
		if !need(2) {
			return TV{"false", "Bool", B}
		}
		k, ok := e.Args[0].(*EInt)
		if !ok {
			return env.fail("atloop needs a literal loop ordinal")
		}
		var n int
		fmt.Sscan(k.Val, &n)
		stt := env.loopEntry[n]
		if stt == nil {
			return env.fail("atloop(%d): no such loop state here", n)
		}
		sub := *env
		sub.cur = stt
		return sub.tr(e.Args[1])
	case "len":
		if !need(1) {
			return TV{"0", "Int", I}
		}
		x := arg(0)
		if x.Sort == "String" {
			return TV{fmt.Sprintf("(str.len %s)", x.T), "Int", I}
		}
		if strings.HasPrefix(x.Sort, "Seq_") {
			return TV{fmt.Sprintf("(len_%s %s)", x.Sort, x.T), "Int", I}
		}
		if mt, ok := goUnder(x.Go).(*types.Map); ok {
			_, md, ks, _ := fc.mapComps(mt)
			cn := "card_" + mangle(ks)
			P.Declare(cn, fmt.Sprintf("(declare-fun %s ((Array %s Bool)) Int)\n(assert (forall ((d (Array %s Bool))) (! (>= (%s d) 0) :pattern ((%s d)))))\n(assert (= (%s ((as const (Array %s Bool)) false)) 0))\n(assert (forall ((d (Array %s Bool)) (k %s)) (! (= (%s (store d k true)) (ite (select d k) (%s d) (+ (%s d) 1))) :pattern ((%s (store d k true))))))\n(assert (forall ((d (Array %s Bool)) (k %s)) (! (=> (select d k) (> (%s d) 0)) :pattern ((select d k) (%s d)))))", cn, ks, ks, cn, cn, cn, ks, ks, ks, cn, cn, cn, cn, ks, ks, cn, cn))
			return TV{fmt.Sprintf("(ite (= %s 0) 0 (%s (select %s %s)))", x.T, cn, fc.lookup(env.cur, md), x.T), "Int", I}
		}
		return env.fail("len of %s", x.Sort)
	case "has":
		if !need(2) {
			return TV{"false", "Bool", B}
		}
		s, x := arg(0), arg(1)
		return env.inOp(x, s)
	case "take", "drop":
		if !need(2) {
			return TV{"false", "Bool", B}
		}
		s, n := arg(0), arg(1)
		return TV{fmt.Sprintf("(%s_%s %s %s)", e.Fun, s.Sort, s.T, n.T), s.Sort, s.Go}
	case "build", "append":
		s := arg(0)
		t := s.T
		for i := 1; i < len(e.Args); i++ {
			t = fmt.Sprintf("(build_%s %s %s)", s.Sort, t, arg(i).T)
		}
		return TV{t, s.Sort, s.Go}
	case "cat":
		a, b := arg(0), arg(1)
		return TV{fmt.Sprintf("(cat_%s %s %s)", a.Sort, a.T, b.T), a.Sort, a.Go}
	case "upd":
		s, i, v := arg(0), arg(1), arg(2)
		return TV{fmt.Sprintf("(upd_%s %s %s %s)", s.Sort, s.T, i.T, v.T), s.Sort, s.Go}
	case "seq":
		if len(e.Args) == 0 {
			return env.fail("seq() needs at least one element; use emptyseq(T)")
		}
		x0 := arg(0)
		s := P.SeqSort(x0.Sort)
		t := "emptynn_" + s
		for i := range e.Args {
			t = fmt.Sprintf("(build_%s %s %s)", s, t, arg(i).T)
		}
		var goT types.Type
		if x0.Go != nil {
			goT = types.NewSlice(x0.Go)
		}
		return TV{t, s, goT}
	case "isnil":
		s := arg(0)
		if strings.HasPrefix(s.Sort, "Seq_") {
			return TV{fmt.Sprintf("(isnil_%s %s)", s.Sort, s.T), "Bool", B}
		}
		return TV{fmt.Sprintf("(= %s 0)", s.T), "Bool", B}
	case "hasPrefix":
		s, p := arg(0), arg(1)
		return TV{fmt.Sprintf("(str.prefixof %s %s)", p.T, s.T), "Bool", B}
	case "hasSuffix":
		s, p := arg(0), arg(1)
		return TV{fmt.Sprintf("(str.suffixof %s %s)", p.T, s.T), "Bool", B}
	case "contains":
		s, p := arg(0), arg(1)
		return TV{fmt.Sprintf("(str.contains %s %s)", s.T, p.T), "Bool", B}
	case "trimRight":
		s, c := arg(0), arg(1)
		f := "sfn_strings_TrimRight"
		P.Declare(f, fmt.Sprintf("(declare-fun %s (String String) String)", f))
		return TV{fmt.Sprintf("(%s %s %s)", f, s.T, c.T), "String", s.Go}
	case "stringof":
		b := arg(0)
		if b.Sort == "String" {
			return b
		}
		P.Declare("str_of_"+b.Sort, fmt.Sprintf("(declare-fun str_of_%s (%s) String)", b.Sort, b.Sort))
		return TV{fmt.Sprintf("(str_of_%s %s)", b.Sort, b.T), "String", types.Typ[types.String]}
	case "toLower":
		s := arg(0)
		f := "sfn_strings_ToLower"
		P.Declare(f, fmt.Sprintf("(declare-fun %s (String) String)\n(assert (forall ((s String)) (! (= (%s (%s s)) (%s s)) :pattern ((%s s)))))", f, f, f, f, f))
		return TV{fmt.Sprintf("(%s %s)", f, s.T), "String", s.Go}
	case "ite":
		c, a, b := arg(0), arg(1), arg(2)
		a, b = env.unify(a, b)
		return TV{fmt.Sprintf("(ite %s %s %s)", c.T, a.T, b.T), a.Sort, a.Go}
	case "min", "max":
		a, b := arg(0), arg(1)
		a, b = env.unify(a, b)
		op := map[string]string{"min": "<=", "max": ">="}[e.Fun]
		return TV{fmt.Sprintf("(ite (%s %s %s) %s %s)", op, a.T, b.T, a.T, b.T), a.Sort, a.Go}
	case "abs":
		a := arg(0)
		return TV{fmt.Sprintf("(ite (>= %s 0) %s (- %s))", a.T, a.T, a.T), a.Sort, a.Go}
	case "real":
		a := arg(0)
		if a.Sort == "Real" {
			return a
		}
		return TV{toReal(a.T), "Real", types.Typ[types.Float64]}
	case "floor":
		a := arg(0)
		if env.qdepth == 0 && !env.specBody {
			k := fc.freshConst("sfloor", "Int")
			fc.fact("", "(and (<= (to_real %s) %s) (< %s (+ (to_real %s) 1.0)))", k, a.T, a.T, k)
			return TV{k, "Int", I}
		}
		return TV{fmt.Sprintf("(to_int %s)", a.T), "Int", I}
	case "ceil":
		a := arg(0)
		if env.qdepth == 0 && !env.specBody {
			// outside quantifiers: an integer witness k with k-1 < x <= k (a conservative extension; solvers cope far better)
			k := fc.freshConst("sceil", "Int")
			fc.fact("", "(and (< (- (to_real %s) 1.0) %s) (<= %s (to_real %s)))", k, a.T, a.T, k)
			return TV{k, "Int", I}
		}
		return TV{fmt.Sprintf("(- (to_int (- %s)))", a.T), "Int", I}
	case "trunc":
		a := arg(0)
		P.Declare("trunc", "(define-fun trunc ((x Real)) Int (ite (>= x 0.0) (to_int x) (- (to_int (- x)))))")
		return TV{fmt.Sprintf("(trunc %s)", a.T), "Int", I}
	case "int8", "int16", "int32", "int64", "uint8", "uint16", "uint32", "uint64", "int", "uint":
		a := arg(0)
		T := types.Universe.Lookup(e.Fun).Type()
		t := a.T
		if a.Sort == "Real" {
			P.Declare("trunc", "(define-fun trunc ((x Real)) Int (ite (>= x 0.0) (to_int x) (- (to_int (- x)))))")
			t = fmt.Sprintf("(trunc %s)", t)
		}
		if e.Fun == "uint64" || e.Fun == "uint" {
			P.Declare("wrap_u64", "(define-fun wrap_u64 ((x Int)) Int (mod x 18446744073709551616))")
			return TV{fmt.Sprintf("(wrap_u64 %s)", t), "Int", T}
		}
		return TV{fc.wrap(t, T), "Int", T}
	case "deref":
		return env.tr(&EUnary{"*", e.Args[0]})
	case "fresh":
		a := arg(0)
		st := env.old
		if st == nil {
			st = env.cur
		}
		return TV{fmt.Sprintf("(>= %s %s)", a.T, st.comp["TOP"]), "Bool", B}
	case "allocated":
		a := arg(0)
		return TV{fmt.Sprintf("(and (> %s 0) (< %s %s))", a.T, a.T, env.cur.comp["TOP"]), "Bool", B}
	case "app":
		// app(f, args...) with result sort from context: Bool by default; appT("sort", f, args...) otherwise
		f := arg(0)
		var as, ss []string
		for i := 1; i < len(e.Args); i++ {
			a := arg(i)
			as = append(as, a.T)
			ss = append(ss, a.Sort)
		}
		name := fc.appFun(ss, "Bool")
		return TV{fmt.Sprintf("(%s %s %s)", name, f.T, strings.Join(as, " ")), "Bool", B}
	case "typeis":
		// typeis(x, T): dynamic type of interface value x is T (Go type syntax in a string literal)
		x := arg(0)
		ts, ok := e.Args[1].(*EStr)
		if !ok {
			return env.fail("typeis needs a string literal type")
		}
		T, _ := fc.resolveType(ts.Val, env.tpkg)
		k := P.Box(T)
		return TV{fmt.Sprintf("(= (tagof %s) tag_%s)", x.T, k), "Bool", B}
	case "selectchan", "selectedcase":
		// the function's only select statement: selectchan(i) is the channel of its i-th case, selectedcase() the index of
		// the case that fired
		if env.fr == nil {
			return env.fail("%s is only available in the contract of the function that contains the select", e.Fun)
		}
		var sel *ssa.Select
		for _, b := range env.fr.fn.Blocks {
			for _, in := range b.Instrs {
				if s, ok := in.(*ssa.Select); ok {
					if sel != nil {
						return env.fail("%s: the function has more than one select", e.Fun)
					}
					sel = s
				}
			}
		}
		if sel == nil {
			return env.fail("%s: the function has no select", e.Fun)
		}
		if e.Fun == "selectedcase" {
			n, ok := env.fr.vals[sel]
			if !ok {
				return env.fail("selectedcase: the select has not been reached")
			}
			return TV{n + "_r0", "Int", types.Typ[types.Int]}
		}
		ie, ok := e.Args[0].(*EInt)
		if !ok {
			return env.fail("selectchan needs a literal case index")
		}
		var idx int
		fmt.Sscanf(ie.Val, "%d", &idx)
		if idx < 0 || idx >= len(sel.States) {
			return env.fail("selectchan: the select has %d cases", len(sel.States))
		}
		return TV{env.fr.val(sel.States[idx].Chan), "Int", sel.States[idx].Chan.Type()}
	case "param":
		// param("x"): the value parameter x had on entry (loop invariants see the current value of a reassigned parameter)
		ns, ok := env.strLit(e.Args[0])
		if !ok || env.param == nil {
			return env.fail("param needs a string literal parameter name")
		}
		if tv, ok := env.param(ns.Val); ok {
			return tv
		}
		return env.fail("param: unknown parameter %q", ns.Val)
	case "local":
		// local("x"): the Go variable x, even where a contract keyword (result, idx, ...) shadows its name
		ns, ok := env.strLit(e.Args[0])
		if !ok || env.lookup == nil {
			return env.fail("local needs a string literal variable name")
		}
		if tv, ok := env.lookup(ns.Val, env.cur); ok {
			return tv
		}
		return env.fail("local: unknown variable %q", ns.Val)
	case "funcval":
		// funcval("pkg/path::Name"): the function value of a named package-level function of the loaded packages
		ks, ok := env.strLit(e.Args[0])
		if !ok {
			return env.fail("funcval needs a string literal function key")
		}
		fn := fc.eng.Funcs[ks.Val]
		if fn == nil {
			return env.fail("funcval: no function %q in the loaded packages", ks.Val)
		}
		n := "fn_" + mangle(fn.String())
		fc.declare(n, "Int")
		if !fc.declared["nz_"+n] {
			fc.declared["nz_"+n] = true
			fc.fact("", "(not (= %s 0))", n)
		}
		return TV{n, "Int", fn.Signature}
	case "closureof", "freevar":
		// closureof(f, "Outer$1"): the function value f is a closure of that anonymous function;
		// freevar(f, "Outer$1", "name"): the value its captured variable held when the closure was made.
		x := arg(0)
		ks, ok := env.strLit(e.Args[1])
		if !ok {
			return env.fail("%s needs a string literal function key", e.Fun)
		}
		fn := fc.findClosureFn(ks.Val)
		if fn == nil {
			return env.fail("%s: no anonymous function %q in the loaded packages", e.Fun, ks.Val)
		}
		if e.Fun == "closureof" {
			return TV{fmt.Sprintf("(= (%s %s) %d)", fc.cloFnFun(), x.T, cloID(fn)), "Bool", B}
		}
		ns, ok := e.Args[2].(*EStr)
		if !ok {
			return env.fail("freevar needs a string literal variable name")
		}
		for i, fv := range fn.FreeVars {
			if fv.Name() == ns.Val {
				T := fv.Type()
				if pt, ok := T.Underlying().(*types.Pointer); ok {
					T = pt.Elem()
				}
				return TV{fmt.Sprintf("(%s %s)", fc.cloFvFun(i, P.SortOf(T)), x.T), P.SortOf(T), T}
			}
		}
		return env.fail("freevar: %s captures no variable %q", ks.Val, ns.Val)
	case "unbox":
		x := arg(0)
		ts, ok := e.Args[1].(*EStr)
		if !ok {
			return env.fail("unbox needs a string literal type")
		}
		T, s := fc.resolveType(ts.Val, env.tpkg)
		k := P.Box(T)
		return TV{fmt.Sprintf("(unbox_%s %s)", k, x.T), s, T}
	case "box":
		x := arg(0)
		if x.Go == nil {
			return env.fail("box of untyped value")
		}
		k := P.Box(x.Go)
		return TV{fmt.Sprintf("(box_%s %s)", k, x.T), "Int", types.NewInterfaceType(nil, nil)}
	case "mk":
		// mk("T", f0, f1, ...): struct value
		ts, ok := e.Args[0].(*EStr)
		if !ok {
			return env.fail("mk needs a string literal type")
		}
		T, s := fc.resolveType(ts.Val, env.tpkg)
		st, ok := goUnder(T).(*types.Struct)
		if !ok || st.NumFields() != len(e.Args)-1 {
			return env.fail("mk(%s): wrong number of fields", ts.Val)
		}
		var as []string
		for i := 1; i < len(e.Args); i++ {
			as = append(as, arg(i).T)
		}
		return TV{fmt.Sprintf("(mk_%s %s)", s, strings.Join(as, " ")), s, T}
	case "emptyseq":
		ts, ok := e.Args[0].(*EStr)
		if !ok {
			return env.fail("emptyseq needs a string literal element type")
		}
		T, s := fc.resolveType(ts.Val, env.tpkg)
		ss := P.SeqSort(s)
		return TV{"empty_" + ss, ss, types.NewSlice(T)}
	case "smhas":
		// smhas(&x.syncmap, key): key (an interface value) is present in the sync.Map at that address
		m, k := arg(0), arg(1)
		_, smd := fc.syncMapComps()
		return TV{fmt.Sprintf("(select (select %s %s) %s)", fc.lookup(env.cur, smd), m.T, k.T), "Bool", B}
	case "smget":
		m, k := arg(0), arg(1)
		smv, _ := fc.syncMapComps()
		return TV{fmt.Sprintf("(select (select %s %s) %s)", fc.lookup(env.cur, smv), m.T, k.T), "Int", types.NewInterfaceType(nil, nil)}
	case "smdom":
		m := arg(0)
		_, smd := fc.syncMapComps()
		return TV{fmt.Sprintf("(select %s %s)", fc.lookup(env.cur, smd), m.T), "(Array Int Bool)", nil}
	case "smval":
		m := arg(0)
		smv, _ := fc.syncMapComps()
		return TV{fmt.Sprintf("(select %s %s)", fc.lookup(env.cur, smv), m.T), "(Array Int Int)", nil}
	case "mapdom":
		m := arg(0)
		if mt, ok := goUnder(m.Go).(*types.Map); ok {
			_, md, ks, _ := fc.mapComps(mt)
			return TV{fmt.Sprintf("(select %s %s)", fc.lookup(env.cur, md), m.T), fmt.Sprintf("(Array %s Bool)", ks), nil}
		}
		return env.fail("mapdom of non-map")
	case "mapval":
		m := arg(0)
		if mt, ok := goUnder(m.Go).(*types.Map); ok {
			mv, _, ks, vs := fc.mapComps(mt)
			return TV{fmt.Sprintf("(select %s %s)", fc.lookup(env.cur, mv), m.T), fmt.Sprintf("(Array %s %s)", ks, vs), nil}
		}
		return env.fail("mapval of non-map")
	case "store":
		a, k, v := arg(0), arg(1), arg(2)
		return TV{fmt.Sprintf("(store %s %s %s)", a.T, k.T, v.T), a.Sort, a.Go}
	}
	if sf, ok := fc.eng.Spec.Specs[e.Fun]; ok {
		return env.specCall(sf, e)
	}
	if tv, ok := env.pureGoCall(e); ok {
		return tv
	}
	return env.fail("unknown function %q", e.Fun)
}

// strLit: a string literal, possibly behind a `const` macro.
func (env *Env) strLit(e Expr) (*EStr, bool) {
	if s, ok := e.(*EStr); ok {
		return s, true
	}
	if id, ok := e.(*EIdent); ok {
		if c, ok := env.fc.eng.Spec.Consts[id.Name]; ok {
			if pe, err := ParseExpr(c); err == nil {
				if s, ok := pe.(*EStr); ok {
					return s, true
				}
			}
		}
	}
	return nil, false
}

func (fc *FnCtx) cloFnFun() string {
	fc.P.Declare("clo_fn", "(declare-fun clo_fn (Int) Int)")
	return "clo_fn"
}

func (fc *FnCtx) cloFvFun(i int, sort string) string {
	name := fmt.Sprintf("clo_fv%d_%s", i, mangle(sort))
	fc.P.Declare(name, fmt.Sprintf("(declare-fun %s (Int) %s)", name, sort))
	return name
}

// cloID: a stable identifier of an anonymous function (FNV-1a of its qualified key).
func cloID(fn *ssa.Function) int64 {
	path := ""
	if fn.Pkg != nil {
		path = fn.Pkg.Pkg.Path()
	}
	h := uint64(14695981039346656037)
	for _, c := range []byte(path + "::" + closureKey(fn)) {
		h ^= uint64(c)
		h *= 1099511628211
	}
	return int64(h>>2) + 1
}

// findClosureFn resolves "Outer$1" / "(*T).M$1" (optionally "pkg::" qualified) among the loaded functions.
func (fc *FnCtx) findClosureFn(key string) *ssa.Function {
	if fn, ok := fc.eng.Funcs[key]; ok && fn.Parent() != nil {
		return fn
	}
	var found *ssa.Function
	for k, fn := range fc.eng.Funcs {
		if fn.Parent() != nil && strings.HasSuffix(k, "::"+key) {
			if found != nil && found != fn {
				return nil
			}
			found = fn
		}
	}
	return found
}

func (fc *FnCtx) appFun(argSorts []string, res string) string {
	name := "app_" + mangle(strings.Join(argSorts, "_")) + "_" + mangle(res)
	fc.P.Declare(name, fmt.Sprintf("(declare-fun %s (Int %s) %s)", name, strings.Join(argSorts, " "), res))
	return name
}

func (env *Env) specCall(sf *SpecFunc, e *ECall) TV {
	fc := env.fc
	if len(e.Args) != len(sf.Params) {
		return env.fail("spec func %s expects %d arguments", sf.Name, len(sf.Params))
	}
	name := fc.emitSpecFunc(sf)
	var tpkg *types.Package
	tpkg = fc.pkgTypes(sf.Pkg)
	rT, rS := fc.resolveType(sf.Result, tpkg)
	if len(e.Args) == 0 {
		return TV{name, rS, rT}
	}
	var as []string
	for i, a := range e.Args {
		tv := env.tr(a)
		_, ps := fc.resolveType(sf.Params[i].Type, tpkg)
		if ps == "Real" && tv.Sort == "Int" {
			tv = TV{toReal(tv.T), "Real", nil}
		}
		if strings.HasPrefix(ps, "Seq_") && tv.T == "0" {
			tv = TV{"empty_" + ps, ps, nil}
		}
		if tv.Sort != ps {
			env.fail("spec func %s: argument %d has sort %s, expected %s", sf.Name, i, tv.Sort, ps)
		}
		as = append(as, tv.T)
	}
	return TV{fmt.Sprintf("(%s %s)", name, strings.Join(as, " ")), rS, rT}
}

// emitSpecFunc declares (and defines) a spec function in the prelude, once.
func (fc *FnCtx) emitSpecFunc(sf *SpecFunc) string {
	name := "sf_" + mangle(sf.Name)
	if fc.specDone[sf.Name] {
		return name
	}
	fc.specDone[sf.Name] = true
	var tpkg *types.Package
	tpkg = fc.pkgTypes(sf.Pkg)
	_, rS := fc.resolveType(sf.Result, tpkg)
	env := &Env{fc: fc, tpkg: tpkg, names: map[string]TV{}, cur: fc.entry, specBody: true}
	var ps, ss, ns []string
	for _, p := range sf.Params {
		T, s := fc.resolveType(p.Type, tpkg)
		n := "a_" + mangle(p.Name)
		env.names[p.Name] = TV{n, s, T}
		ps = append(ps, fmt.Sprintf("(%s %s)", n, s))
		ss = append(ss, s)
		ns = append(ns, n)
	}
	if sf.Body == nil {
		fc.P.funDecls = append(fc.P.funDecls, fmt.Sprintf("(declare-fun %s (%s) %s)", name, strings.Join(ss, " "), rS))
		return name
	}
	recursive := strings.Contains(sf.BodyTxt, sf.Name+"(")
	quantified := strings.Contains(sf.BodyTxt, "forall ") || strings.Contains(sf.BodyTxt, "exists ")
	if (recursive || quantified) && len(ps) > 0 && !fc.P.small {
		fc.P.funDecls = append(fc.P.funDecls, fmt.Sprintf("(declare-fun %s (%s) %s)", name, strings.Join(ss, " "), rS))
		body := env.tr(sf.Body)
		fc.P.funDecls = append(fc.P.funDecls, fmt.Sprintf("(assert (forall (%s) (! (= (%s %s) %s) :pattern ((%s %s)))))", strings.Join(ps, " "), name, strings.Join(ns, " "), body.T, name, strings.Join(ns, " ")))
		return name
	}
	body := env.tr(sf.Body) // may emit nested spec funcs first
	if body.Sort != rS {
		if rS == "Real" && body.Sort == "Int" {
			body.T = toReal(body.T)
		} else {
			fc.errf("spec func %s: body has sort %s, declared %s", sf.Name, body.Sort, rS)
		}
	}
	if len(ps) == 0 {
		fc.P.funDecls = append(fc.P.funDecls, fmt.Sprintf("(define-fun %s () %s %s)", name, rS, body.T))
	} else {
		fc.P.funDecls = append(fc.P.funDecls, fmt.Sprintf("(define-fun %s (%s) %s %s)", name, strings.Join(ps, " "), rS, body.T))
	}
	return name
}

// pureGoCall: application of a Go function under a `pure` contract with a single result, as the mathematical function
// pf_<name>. Call sites of that function learn result == pf_<name>(args); lemmas may use its proved contract as an axiom.
func (env *Env) pureGoCall(e *ECall) (TV, bool) {
	fc := env.fc
	if env.tpkg == nil {
		return TV{}, false
	}
	key := env.tpkg.Path() + "::" + e.Fun
	fn := fc.eng.Funcs[key]
	ctr := fc.eng.Spec.Funcs[key]
	if fn == nil || ctr == nil || !ctr.Pure || fn.Signature.Results().Len() != 1 || len(fn.Params) != len(e.Args) {
		return TV{}, false
	}
	name, _ := fc.pureFun(fn)
	var as []string
	for i := range e.Args {
		as = append(as, env.tr(e.Args[i]).T)
	}
	rT := fn.Signature.Results().At(0).Type()
	if fc.pfUsed == nil {
		fc.pfUsed = map[string]bool{}
	}
	fc.pfUsed[key] = true
	return TV{fmt.Sprintf("(%s %s)", name, strings.Join(as, " ")), fc.P.SortOf(rT), rT}, true
}
