package main

func cmdCheck(args []string) int    { return 2 }
func cmdReplay(args []string) int   { return 2 }
func cmdSelftest(args []string) int { return 2 }
