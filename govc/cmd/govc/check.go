package main

// `govc check --property Cxx --tier quick|thorough`: decide one property.

import (
	"golang.org/x/tools/go/ssa"
	"encoding/json"
	"flag"
	"fmt"
	"math"
	"os"
	"path/filepath"
	"sort"
	"strconv"
	"strings"
	"time"
)

type PropCfg struct {
	Packages    []string `json:"packages"`
	Assumptions []string `json:"assumptions"`
	Trusted     []string `json:"trusted"`
	Residual    []string `json:"residual"`
	Bounded     []string `json:"bounded,omitempty"`
}

type KnownFinding struct {
	Property   string `json:"property"`
	Obligation string `json:"obligation"` // Func#kind:label
	Pin        string `json:"pin"`        // Func#asis:label (must hold while the obligation fails)
	What       string `json:"what"`
	Witness    string `json:"witness"` // replay test file (relative to /verif) reproducing the defect on the real code
	Status     string `json:"status"`  // open | fixed
	Commit     string `json:"commit,omitempty"`
}

type oblResult struct {
	Name    string   `json:"name"`
	Sites   int      `json:"sites"`
	Proved  int      `json:"proved"`
	Status  string   `json:"status"`
	Solvers []string `json:"solvers"`
	Secs    float64  `json:"secs"`
	Class   string   `json:"class,omitempty"`
	Text    string   `json:"text,omitempty"`
	verdicts []*Verdict
	fc       *FnCtx
	cex      *Cex
	cexLog   []string
}

func loadJSON(path string, v interface{}) error {
	data, err := os.ReadFile(path)
	if err != nil {
		return err
	}
	return json.Unmarshal(data, v)
}

func cmdCheck(args []string) int {
	fs := flag.NewFlagSet("check", flag.ExitOnError)
	repo := fs.String("repo", envOr("GOVC_REPO", "/repo"), "repository")
	verif := fs.String("verif", envOr("GOVC_VERIF", "/verif"), "verif dir")
	prop := fs.String("property", "", "property id")
	tier := fs.String("tier", envOr("VERIF_TIER", "quick"), "quick|thorough")
	noEvidence := fs.Bool("no-evidence", false, "do not write the evidence file (selftest)")
	record := fs.Bool("record", false, "record the generated obligation names and baseline times in contracts/expected_obligations.json")
	quiet := fs.Bool("q", false, "less output")
	fs.Parse(args)
	t0 := time.Now()
	seed, _ := strconv.Atoi(envOr("VERIF_SEED", "0"))
	cfgs := map[string]*PropCfg{}
	if err := loadJSON(filepath.Join(*verif, "contracts", "properties.json"), &cfgs); err != nil {
		fmt.Println("cannot read properties.json:", err)
		return 2
	}
	cfg := cfgs[*prop]
	if cfg == nil {
		fmt.Println("unknown property", *prop)
		return 2
	}
	res := runProperty(*repo, *verif, *prop, cfg, *tier, nil, !*quiet)
	res.WallS = time.Since(t0).Seconds()
	res.Seed = seed
	if *record {
		exp := map[string]map[string]float64{}
		loadJSON(filepath.Join(*verif, "contracts", "expected_obligations.json"), &exp)
		exp[*prop] = map[string]float64{}
		for _, r := range res.Obls {
			if r.Status == "proved" {
				// baseline: the slowest winning query; negative when some site needed the full (unsliced) context
				mx, full := 0.001, false
				for _, v := range r.verdicts {
					if v.OwnSecs > mx {
						mx = v.OwnSecs
					}
					if v.FullCtx {
						full = true
					}
				}
				if full {
					mx = -mx
				}
				exp[*prop][r.Name] = round3(mx)
			}
		}
		writeJSON(filepath.Join(*verif, "contracts", "expected_obligations.json"), exp)
	}
	code := res.report(*verif, *prop, cfg, *tier, !*noEvidence)
	return code
}

type PropResult struct {
	Prop       string
	Tier       string
	Seed       int
	Obls       []*oblResult
	Errors     []string
	Funcs      []string
	Replayable []string
	Trusted    []string
	Axioms     []string
	Abstract   []string
	Vacuous    []string
	Missing    []string
	WallS      float64
	SolverSecs float64
	Queries    int
	Covers     int
	LoadErr    string
}

// runProperty loads the tree and discharges every obligation of the property. overlay: mutated sources (selftest).
func runProperty(repo, verif, prop string, cfg *PropCfg, tier string, overlay map[string][]byte, verbose bool) *PropResult {
	res := &PropResult{Prop: prop, Tier: tier}
	e := NewEngine(repo, verif)
	e.Overlay = overlay
	e.CurProp = prop
	if err := e.LoadSpecs(); err != nil {
		res.LoadErr = "contract files: " + err.Error()
		return res
	}
	if err := e.Load(cfg.Packages); err != nil {
		res.LoadErr = "loading /repo: " + err.Error()
		return res
	}
	work := filepath.Join(verif, "work", prop)
	if overlay != nil {
		work = filepath.Join(verif, "work", prop+"_selftest")
	}
	os.RemoveAll(work)
	os.MkdirAll(work, 0o755)
	timeout := 20
	all := false
	if tier == "thorough" {
		timeout = 60
		all = true
	}
	exp := map[string]map[string]float64{}
	loadJSON(filepath.Join(verif, "contracts", "expected_obligations.json"), &exp)
	timeoutFor := func(o *Obl) int {
		if tier == "thorough" {
			return timeout
		}
		if overlay != nil {
			// selftest: short timeouts
			if b, ok := exp[prop][o.Name()]; ok {
				return minInt(40, maxInt(4, int(math.Abs(b)*20)+1))
			}
			return 6
		}
		if b, ok := exp[prop][o.Name()]; ok {
			return minInt(150, maxInt(6, int(math.Abs(b)*50)+1))
		}
		return timeout
	}
	needsFull := func(o *Obl) bool { return exp[prop][o.Name()] < 0 }
	hasProp := func(ps []string) bool {
		for _, p := range ps {
			if p == prop {
				return true
			}
		}
		return false
	}
	var fcs []*FnCtx
	for _, k := range e.Spec.Order {
		c := e.Spec.Funcs[k]
		if !hasProp(c.Props) {
			continue
		}
		if c.Trusted {
			what := k
			switch {
			case c.IsIface:
				what = "interface contract, assumed for every implementation: " + k
			case c.TrustReason != "":
				what = "contract of a /repo function assumed, body NOT verified (" + c.TrustReason + "): " + k
			}
			res.Trusted = append(res.Trusted, what)
			continue
		}
		res.Funcs = append(res.Funcs, k)
		if ok, _ := cexEligible(e.Funcs[k]); ok {
			res.Replayable = append(res.Replayable, k)
		}
		if overlay != nil {
			// selftest: verification is modular — only functions whose own source file is patched can change verdict
			// (its own file, or the file of a callee without contract, which is inlined into it)
			if fn := e.Funcs[k]; fn != nil && fn.Pos().IsValid() {
				if !e.dependsOnPatched(fn, overlay) {
					continue
				}
			}
		}
		fc := e.VerifyFunc(k, false)
		fcs = append(fcs, fc)
		if len(c.Guarantee) > 0 {
			fcs = append(fcs, e.VerifyGuarantee(k))
		}
	}
	for _, l := range e.Spec.Lemmas {
		if !hasProp(l.Props) {
			continue
		}
		if l.Axiom {
			res.Axioms = append(res.Axioms, l.Label+": "+l.Text)
			continue
		}
		if overlay != nil {
			continue // lemmas depend on contracts only, which a source patch does not change
		}
		fcs = append(fcs, e.VerifyLemma(l, false))
	}
	for _, r := range e.Spec.Refines {
		if !hasProp(r.Props) || overlay != nil {
			continue
		}
		fcs = append(fcs, e.VerifyRefinement(r))
	}
	// trusted contracts actually used: every extern contract (they are assumed wherever called)
	for _, k := range e.Spec.Order {
		if c := e.Spec.Funcs[k]; c.Trusted && !hasProp(c.Props) {
			// listed only if referenced by a verified function of this property: approximated by package load
			_ = c
		}
	}
	type job struct {
		fc     *FnCtx
		o      *Obl
		script string
		sliced string
		v      *Verdict
	}
	var jobs []*job
	var covers []*job
	for _, fc := range fcs {
		for _, er := range fc.errs {
			res.Errors = append(res.Errors, fc.key+": "+er)
		}
		for a := range fc.abstractions {
			res.Abstract = append(res.Abstract, a)
		}
		for _, o := range fc.obls {
			jobs = append(jobs, &job{fc: fc, o: o, script: fc.Query(o, true), sliced: fc.QueryOpt(o, true, true)})
		}
		// vacuity: (a) the requires alone must be satisfiable, (b) not every return site may be unreachable, (c) every loop
		// header must be reachable together with its assumed invariants. A single unreachable return site is only noted
		// (run-time panics are assumed away, which can make a defensive branch dead).
		seenPath := map[string]bool{}
		for _, o := range fc.obls {
			if o.Kind == "lemma" || seenPath[o.Path] {
				continue
			}
			if !(o.Kind == "ensures" || strings.HasPrefix(o.Kind, "invariant-preserved")) {
				continue
			}
			seenPath[o.Path] = true
			kind := "cover-return"
			if o.Kind != "ensures" {
				kind = "cover-loop"
			}
			co := &Obl{Func: o.Func, Kind: kind, Label: o.Kind + ":" + o.Label, Site: o.Site, NFacts: o.NFacts, Path: o.Path, Goal: "true"}
			covers = append(covers, &job{fc: fc, o: co, script: fc.Query(co, false)})
		}
		if fc.nPreFacts > 0 {
			co := &Obl{Func: fc.key, Kind: "cover-requires", Label: "requires", NFacts: fc.nPreFacts, Path: "true", Goal: "true"}
			covers = append(covers, &job{fc: fc, o: co, script: fc.Query(co, false)})
		}
	}
	var fns []func()
	for _, j := range jobs {
		j := j
		fns = append(fns, func() {
			// sliced query first (cone of influence; dropping hypotheses is sound), the full context as fallback
			if len(j.sliced) < len(j.script)*9/10 && !needsFull(j.o) {
				st := timeoutFor(j.o)
				if _, known := exp[prop][j.o.Name()]; !known {
					st = minInt(st, 8)
				}
				v := Discharge(j.o, j.sliced, work, st, all)
				v.OwnSecs = v.Secs
				if v.Status == "proved" {
					j.v = v
					return
				}
				full := Discharge(j.o, j.script, work, timeoutFor(j.o), all)
				full.OwnSecs = full.Secs
				full.FullCtx = true
				full.Secs += v.Secs
				j.v = full
				return
			}
			j.v = Discharge(j.o, j.script, work, timeoutFor(j.o), all)
			j.v.OwnSecs = j.v.Secs
			j.v.FullCtx = len(j.sliced) < len(j.script)*9/10
		})
	}
	for _, j := range covers {
		j := j
		fns = append(fns, func() {
			// a cover is vacuous only if a solver answers unsat; sat/unknown/timeout are all fine
			cls, _, secs := runSolver(solvers[0], writeTmp(work, j.o, j.script), 3)
			j.v = &Verdict{Obl: j.o, Class: cls, Secs: secs}
		})
	}
	pool(16, fns)
	byName := map[string]*oblResult{}
	var order []string
	for _, j := range jobs {
		n := j.o.Name()
		r := byName[n]
		if r == nil {
			r = &oblResult{Name: n, Text: j.o.Text, fc: j.fc}
			byName[n] = r
			order = append(order, n)
		}
		r.Sites++
		r.Secs += j.v.Secs
		res.SolverSecs += j.v.Secs
		res.Queries++
		if j.v.Status == "proved" {
			r.Proved++
			found := false
			for _, s := range r.Solvers {
				if s == j.v.Solver {
					found = true
				}
			}
			if !found {
				r.Solvers = append(r.Solvers, j.v.Solver)
			}
		} else {
			r.Class = j.v.Class
		}
		r.verdicts = append(r.verdicts, j.v)
	}
	for _, n := range order {
		r := byName[n]
		if r.Proved == r.Sites {
			r.Status = "proved"
		} else {
			r.Status = "failed"
		}
		res.Obls = append(res.Obls, r)
	}
	retTotal, retDead := map[string]int{}, map[string]int{}
	for _, j := range covers {
		res.Covers++
		res.SolverSecs += j.v.Secs
		switch j.o.Kind {
		case "cover-return":
			retTotal[j.o.Func]++
			if j.v.Class == "unsat" {
				retDead[j.o.Func]++
				res.Abstract = append(res.Abstract, fmt.Sprintf("return site %s of %s is unreachable in the model (panics are assumed away)", j.o.Site, j.o.Func))
			}
		default:
			if j.v.Class == "unsat" {
				res.Vacuous = append(res.Vacuous, fmt.Sprintf("%s: %s %s@%s is unsatisfiable (contradictory requires / invariant / axiom)", j.o.Func, j.o.Kind, j.o.Label, j.o.Site))
			}
		}
	}
	for f, n := range retTotal {
		if n > 0 && retDead[f] == n {
			res.Vacuous = append(res.Vacuous, fmt.Sprintf("%s: every return site is unreachable under the assumed facts", f))
		}
	}
	sort.Strings(res.Abstract)
	res.Abstract = uniq(res.Abstract)
	for n := range e.Notes {
		res.Abstract = append(res.Abstract, n)
	}
	verifiedFn := map[string]bool{}
	for _, fc := range fcs {
		verifiedFn[fc.key] = true
	}
	// expected obligations (fail closed if the generator produced fewer labelled obligations than it is known to need)
	for n := range exp[prop] {
		// frame obligations exist only for components a function happens to write: their presence follows the code, not
		// the contract, so a harmless refactoring may add or remove them; they are not part of the expected set
		if strings.Contains(n, "#modifies:") {
			continue
		}
		if overlay != nil {
			// selftest: only the functions of patched files were verified
			fn := n
			if i := strings.Index(n, "#"); i >= 0 {
				fn = n[:i]
			}
			if !verifiedFn[fn] {
				continue
			}
		}
		if byName[n] == nil {
			res.Missing = append(res.Missing, n)
		}
	}
	sort.Strings(res.Missing)
	// counterexample search: for every function with a failed obligation, try to turn a solver model into an input on
	// which the real function violates its own ensures (replay.go); one search per function
	if overlay == nil || os.Getenv("GOVC_CEX_SELFTEST") != "" {
		searched := map[*FnCtx]*Cex{}
		logsOf := map[*FnCtx][]string{}
		for _, r := range res.Obls {
			if r.Status == "proved" || r.fc == nil || r.fc.top == nil || strings.Contains(r.Name, "#asis:") {
				continue
			}
			if _, done := searched[r.fc]; !done {
				var failing []*Verdict
				for _, r2 := range res.Obls {
					if r2.fc == r.fc && r2.Status != "proved" {
						for _, v := range r2.verdicts {
							if v.Status != "proved" {
								failing = append(failing, v)
							}
						}
					}
				}
				if ok, why := cexEligible(r.fc.top); !ok {
					searched[r.fc] = nil
					logsOf[r.fc] = []string{"no replay for this function: " + why}
				} else {
					var logs []string
					searched[r.fc] = e.searchCex(r.fc, failing, work, &logs)
					logsOf[r.fc] = logs
				}
			}
			r.cex = searched[r.fc]
			r.cexLog = logsOf[r.fc]
		}
	}
	if verbose {
		for _, r := range res.Obls {
			if r.Status != "proved" {
				fmt.Printf("  FAILED %s (%d/%d sites, %s)\n", r.Name, r.Proved, r.Sites, r.Class)
			}
		}
	}
	return res
}

// dependsOnPatched: fn, a closure defined in it, or a function it reaches through static calls without passing a function
// under contract (those are used by contract, not by body) is defined in a patched file.
func (e *Engine) dependsOnPatched(fn *ssa.Function, overlay map[string][]byte) bool {
	seen := map[*ssa.Function]bool{}
	var visit func(f *ssa.Function, depth int) bool
	visit = func(f *ssa.Function, depth int) bool {
		if f == nil || seen[f] || depth > 6 {
			return false
		}
		seen[f] = true
		if f.Pos().IsValid() {
			if _, patched := overlay[f.Prog.Fset.Position(f.Pos()).Filename]; patched {
				return true
			}
		}
		for _, b := range f.Blocks {
			for _, in := range b.Instrs {
				switch x := in.(type) {
				case *ssa.MakeClosure:
					if cf, ok := x.Fn.(*ssa.Function); ok && visit(cf, depth+1) {
						return true
					}
				case ssa.CallInstruction:
					if callee := x.Common().StaticCallee(); callee != nil && callee != fn {
						if depth > 0 || callee.Parent() == nil {
							if e.ContractFor(callee) != nil && callee != fn {
								continue
							}
						}
						if visit(callee, depth+1) {
							return true
						}
					}
				}
			}
		}
		return false
	}
	return visit(fn, 0)
}

func minInt(a, b int) int {
	if a < b {
		return a
	}
	return b
}

func maxInt(a, b int) int {
	if a > b {
		return a
	}
	return b
}

func uniq(s []string) []string {
	var out []string
	for i, x := range s {
		if i == 0 || x != s[i-1] {
			out = append(out, x)
		}
	}
	return out
}

func writeTmp(dir string, o *Obl, script string) string {
	name := mangle(o.Name() + "@" + o.Site)
	if len(name) > 150 {
		name = name[:150]
	}
	f := filepath.Join(dir, fmt.Sprintf("%s_%x.smt2", name, hashString(script)))
	os.WriteFile(f, []byte(script), 0o644)
	return f
}

func (res *PropResult) report(verif, prop string, cfg *PropCfg, tier string, writeEvidence bool) int {
	var findings []KnownFinding
	loadJSON(filepath.Join(verif, "known_findings.json"), &findings)
	byName := map[string]*oblResult{}
	for _, r := range res.Obls {
		byName[r.Name] = r
	}
	violations := 0
	var lines []string
	replayDir := filepath.Join(verif, "replays")
	os.MkdirAll(replayDir, 0o755)
	broken := func(what string) {
		// the check itself cannot run: report as a violation of the binding obligation (fails closed)
		violations++
		path := filepath.Join(replayDir, fmt.Sprintf("%s-binding.json", prop))
		writeJSON(path, map[string]interface{}{"property": prop, "obligation": "binding", "reason": what})
		lines = append(lines, fmt.Sprintf("VIOLATION property=%s replay=%s obligation=binding (%s) no-failing-input-found", prop, path, what))
	}
	if res.LoadErr != "" {
		broken(res.LoadErr)
	}
	for _, e := range res.Errors {
		broken(e)
	}
	for _, v := range res.Vacuous {
		broken("vacuity: " + v)
	}
	for _, m := range res.Missing {
		broken("expected obligation was not generated: " + m)
	}
	if len(res.Obls) == 0 && res.LoadErr == "" {
		broken("no obligations generated")
	}
	discharged := 0
	var knownOpen []string
	for _, r := range res.Obls {
		if strings.Contains(r.Name, "#asis:") {
			continue
		}
		if r.Status == "proved" {
			discharged++
			continue
		}
		// failed: known finding?
		handled := false
		for _, f := range findings {
			if f.Property == prop && f.Obligation == r.Name && f.Status == "open" {
				pin := byName[f.Pin]
				if f.Pin == "" || (pin != nil && pin.Status == "proved") {
					lines = append(lines, fmt.Sprintf("KNOWN-FINDING: property=%s %s [%s]", prop, f.What, r.Name))
					knownOpen = append(knownOpen, r.Name)
					handled = true
				}
			}
		}
		if handled {
			continue
		}
		violations++
		path, found := writeReplay(verif, prop, r)
		suffix := ""
		if !found {
			suffix = " no-failing-input-found"
		}
		lines = append(lines, fmt.Sprintf("VIOLATION property=%s replay=%s obligation=%s class=%s%s", prop, path, r.Name, r.Class, suffix))
	}
	nObl := 0
	for _, r := range res.Obls {
		if !strings.Contains(r.Name, "#asis:") {
			nObl++
		}
	}
	for _, l := range lines {
		fmt.Println(l)
	}
	fmt.Printf("property %s tier %s: %d obligations (%d queries), %d discharged, %d violations, %d known findings, solver %.1fs, wall %.1fs\n",
		prop, tier, nObl, res.Queries, discharged, violations, len(knownOpen), res.SolverSecs, res.WallS)
	if writeEvidence {
		res.writeEvidence(verif, prop, cfg, tier, nObl, discharged, violations, knownOpen)
	}
	if violations > 0 {
		return 1
	}
	return 0
}

func writeJSON(path string, v interface{}) {
	data, _ := json.MarshalIndent(v, "", " ")
	os.WriteFile(path, append(data, '\n'), 0o644)
}

func (res *PropResult) writeEvidence(verif, prop string, cfg *PropCfg, tier string, nObl, discharged, violations int, knownOpen []string) {
	var samples []interface{}
	solverCount := map[string]int{}
	var perObl []interface{}
	for _, r := range res.Obls {
		for _, s := range r.Solvers {
			solverCount[s]++
		}
		perObl = append(perObl, map[string]interface{}{"name": r.Name, "status": r.Status, "sites": r.Sites, "solvers": r.Solvers, "secs": round3(r.Secs)})
		if len(samples) < 6 && r.Text != "" && len(r.verdicts) > 0 {
			samples = append(samples, map[string]interface{}{"obligation": r.Name, "clause": r.Text, "status": r.Status, "smt_sha256_8": r.verdicts[0].Hash, "solver": r.verdicts[0].Solver})
		}
	}
	trusted := []string{
		"go/packages + go/types + go/ssa (x/tools v0.29.0) build the SSA the compiler runs",
		"govc SSA->SMT translator (/verif/govc)",
		"SMT solvers z3 5.1.0, cvc5 1.0.3, z3 4.8.12 (first unsat wins; thorough tier: all must agree)",
		"sequence / map / string prelude axioms (/verif/govc/cmd/govc/sorts.go)",
	}
	for _, t := range res.Trusted {
		trusted = append(trusted, "assumed contract (extern stub): "+t)
	}
	for _, a := range res.Axioms {
		trusted = append(trusted, "axiom: "+a)
	}
	trusted = append(trusted, cfg.Trusted...)
	assumptions := append([]string{}, cfg.Assumptions...)
	assumptions = append(assumptions,
		"sequential semantics per function: no interleavings are explored; locks are no-ops; sync/atomic operations are single steps",
		"64-bit integer arithmetic treated as mathematical (no overflow); <=32-bit arithmetic and all conversions wrap exactly",
		"run-time panics (nil dereference, index out of range, failed type assertion) are assumed away except in functions marked panics-never",
		"slices are values: backing-array aliasing and capacity are not modelled; strings are byte sequences",
		"heap well-formedness at entry: references held in parameters, slices, sync.Maps and fields of objects that exist at entry were allocated before the call",
		"go statements have no effect on the spawner (a spawned closure is only recorded in the ghost set spawned); a closure value is identified by its function and the values of its singly-assigned captured variables",
		"higher-order library helpers (retry / backoff helpers, goset.Set.Range, sync.Map.Range) are sequentialised stubs: the closure's non-each ensures are assumed across all its calls (they must be reflexive-transitive two-state relations), each_* ensures for every element when the last call returned true",
		"interface contracts are assumed for every implementation, except where a refines obligation (kind refines in per_obligation) proves them from the implementation's contract under a stated coupling",
		"ghost code (`ghost-set G = E` on a proved function) runs in the model only, when that function returns; a contract marked `inline` is proved for the function and its preconditions are call-site obligations, callers see the body",
		"a failing input is reported only for functions listed under replayable_functions and only after the real function, run on the solver's candidate through go test -overlay, returned values on which one of its own ensures clauses is provably false; all other violations carry no input")
	for _, a := range res.Abstract {
		assumptions = append(assumptions, "abstraction: "+a)
	}
	for _, r := range cfg.Residual {
		assumptions = append(assumptions, "not decided (residual): "+r)
	}
	ev := map[string]interface{}{
		"property_id": prop,
		"tier":        tier,
		"seed":        res.Seed,
		"level":       "proof",
		"coverage": map[string]interface{}{
			"obligations":              nObl - len(knownOpen),
			"obligations_generated":    nObl,
			"explanation":              explainKnown(knownOpen),
			"discharged":               discharged,
			"checker_cmd":              fmt.Sprintf("bin/govc check --property %s --tier %s", prop, tier),
			"trusted_base":             trusted,
			"functions_under_contract": res.Funcs,
			"replayable_functions":     res.Replayable,
			"queries":                  res.Queries,
			"cover_queries":            res.Covers,
			"backends":                 solverCount,
			"solver_time_s":            round3(res.SolverSecs),
			"per_obligation":           perObl,
			"samples":                  samples,
			"known_findings_open":      knownOpen,
			"bounded":                  cfg.Bounded,
		},
		"assumptions": assumptions,
		"wall_s":      round3(res.WallS),
		"violations":  violations,
	}
	os.MkdirAll(filepath.Join(verif, "evidence"), 0o755)
	writeJSON(filepath.Join(verif, "evidence", prop+".json"), ev)
}

// explainKnown: an obligation that fails because of a recorded genuine defect (known_findings.json, status open) is not
// part of the proof claim: it is reported on a KNOWN-FINDING line and listed under known_findings_open.
func explainKnown(knownOpen []string) string {
	if len(knownOpen) == 0 {
		return "every generated obligation is part of the proof claim (obligations == obligations_generated)"
	}
	return fmt.Sprintf("obligations counts the %s generated obligations minus %d that fail because of a recorded genuine defect of the repository (known_findings_open; KNOWN-FINDING lines): the property is NOT claimed to hold on those paths", "obligations_generated", len(knownOpen))
}

func round3(f float64) float64 { return float64(int(f*1000+0.5)) / 1000 }

// writeReplay writes the replay file of a failed obligation; found reports whether a concrete failing input is included.
func writeReplay(verif, prop string, r *oblResult) (string, bool) {
	path := filepath.Join(verif, "replays", fmt.Sprintf("%s-%s.json", prop, mangle(r.Name)))
	var sites []interface{}
	for _, v := range r.verdicts {
		if v.Status == "proved" {
			continue
		}
		out := v.Output
		if len(out) > 2000 {
			out = out[:2000]
		}
		sites = append(sites, map[string]interface{}{"site": v.Obl.Site, "class": v.Class, "solver": v.Solver, "smt_file": v.File, "solver_output": out, "model": truncate(v.Model, 6000)})
	}
	rep := map[string]interface{}{"property": prop, "obligation": r.Name, "clause": r.Text, "failed_sites": sites, "input_found": false}
	found := tryCounterexample(verif, prop, r, rep)
	rep["input_found"] = found
	writeJSON(path, rep)
	return path, found
}

func truncate(s string, n int) string {
	if len(s) > n {
		return s[:n]
	}
	return s
}

func cmdReplay(args []string) int {
	if len(args) < 1 {
		fmt.Println("usage: govc replay <replay.json>")
		return 2
	}
	return replayFile(args[0])
}

func cmdSelftest(args []string) int { return selftest(args) }
