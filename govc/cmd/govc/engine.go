package main

// Engine: loads /repo packages (go/packages + go/ssa), contract files, and drives verification.

import (
	"fmt"
	"go/types"
	"os"
	"path/filepath"
	"sort"
	"strings"

	"golang.org/x/tools/go/packages"
	"golang.org/x/tools/go/ssa"
	"golang.org/x/tools/go/ssa/ssautil"
)

type Engine struct {
	Repo     string
	Verif    string
	Spec     *Spec
	Pkgs     map[string]*packages.Package // by import path (roots only)
	SSAPkgs  map[string]*ssa.Package
	Prog     *ssa.Program
	Funcs    map[string]*ssa.Function // "pkgpath::Key" for every function with a body in root packages
	mutGlobals map[*ssa.Global]bool
	globalInit map[*ssa.Global]*ssa.Const
	Overlay  map[string][]byte
	Notes    map[string]bool // abstractions encountered (reported in evidence)
	rgNext   bool            // the next VerifyFunc is a rely/guarantee pass
	CurProp  string          // property being checked (clauses marked onlyfor are obligations for their properties only)
}

const mainModule = "github.com/kubewharf/kubegateway"
const stagingModule = "github.com/kubewharf/apiserver-runtime"
const stagingDir = "staging/src/github.com/kubewharf/apiserver-runtime"

func NewEngine(repo, verif string) *Engine {
	return &Engine{Repo: repo, Verif: verif, Spec: NewSpec(), Pkgs: map[string]*packages.Package{}, SSAPkgs: map[string]*ssa.Package{},
		Funcs: map[string]*ssa.Function{}, mutGlobals: map[*ssa.Global]bool{}, globalInit: map[*ssa.Global]*ssa.Const{}, Notes: map[string]bool{}}
}

// contractFiles finds zz_verif_contracts.go files in the repo.
func (e *Engine) contractFiles() ([]string, error) {
	var out []string
	err := filepath.Walk(e.Repo, func(p string, info os.FileInfo, err error) error {
		if err != nil {
			return nil
		}
		if info.IsDir() && (info.Name() == ".git" || info.Name() == "vendor" || info.Name() == "node_modules") {
			return filepath.SkipDir
		}
		if !info.IsDir() && info.Name() == "zz_verif_contracts.go" {
			out = append(out, p)
		}
		return nil
	})
	sort.Strings(out)
	return out, err
}

func (e *Engine) pkgPathOfDir(dir string) string {
	rel, _ := filepath.Rel(e.Repo, dir)
	rel = filepath.ToSlash(rel)
	if strings.HasPrefix(rel, stagingDir) {
		return stagingModule + strings.TrimPrefix(rel, stagingDir)
	}
	if rel == "." {
		return mainModule
	}
	return mainModule + "/" + rel
}

func (e *Engine) dirOfPkg(path string) (dir string, staging bool) {
	if strings.HasPrefix(path, stagingModule) {
		return filepath.Join(e.Repo, stagingDir, strings.TrimPrefix(path, stagingModule)), true
	}
	return filepath.Join(e.Repo, strings.TrimPrefix(strings.TrimPrefix(path, mainModule), "/")), false
}

// LoadSpecs parses all contract files (repo) and spec files (/verif/contracts).
func (e *Engine) LoadSpecs() error {
	files, err := e.contractFiles()
	if err != nil {
		return err
	}
	for _, f := range files {
		if err := e.Spec.ParseContractFile(f, e.pkgPathOfDir(filepath.Dir(f))); err != nil {
			return err
		}
	}
	specs, _ := filepath.Glob(filepath.Join(e.Verif, "contracts", "*.spec"))
	sort.Strings(specs)
	for _, f := range specs {
		if err := e.Spec.ParseContractFile(f, ""); err != nil {
			return err
		}
	}
	return nil
}

// Load loads the given root packages (import paths) with SSA.
func (e *Engine) Load(roots []string) error {
	var mainRoots, stagRoots []string
	for _, r := range roots {
		if strings.HasPrefix(r, stagingModule) {
			stagRoots = append(stagRoots, r)
		} else {
			mainRoots = append(mainRoots, r)
		}
	}
	load := func(dir string, pats []string) ([]*packages.Package, error) {
		if len(pats) == 0 {
			return nil, nil
		}
		cfg := &packages.Config{Mode: packages.LoadSyntax, Dir: dir, BuildFlags: []string{"-tags=verif"}, Overlay: e.Overlay,
			Env: append(os.Environ(), "GOFLAGS=-mod=mod", "GOPROXY=off", "GOSUMDB=off", "GOTOOLCHAIN=local")}
		pkgs, err := packages.Load(cfg, pats...)
		if err != nil {
			return nil, err
		}
		for _, p := range pkgs {
			if len(p.Errors) > 0 {
				return nil, fmt.Errorf("package %s: %v", p.PkgPath, p.Errors[0])
			}
		}
		return pkgs, nil
	}
	var all []*packages.Package
	p1, err := load(e.Repo, mainRoots)
	if err != nil {
		return err
	}
	all = append(all, p1...)
	p2, err := load(filepath.Join(e.Repo, stagingDir), stagRoots)
	if err != nil {
		return err
	}
	// separate programs would not share types; build the staging packages in their own program.
	build := func(pkgs []*packages.Package) {
		if len(pkgs) == 0 {
			return
		}
		prog, spkgs := ssautil.Packages(pkgs, ssa.GlobalDebug|ssa.InstantiateGenerics)
		for i, sp := range spkgs {
			if sp == nil {
				continue
			}
			sp.Build()
			e.Pkgs[pkgs[i].PkgPath] = pkgs[i]
			e.SSAPkgs[pkgs[i].PkgPath] = sp
		}
		if e.Prog == nil {
			e.Prog = prog
		}
		for i, sp := range spkgs {
			if sp == nil {
				continue
			}
			e.indexFuncs(pkgs[i].PkgPath, sp)
		}
	}
	build(all)
	build(p2)
	return nil
}

func funcKey(fn *ssa.Function) string {
	if fn.Parent() != nil {
		// closure: Outer$1 (ssa names anonymous functions Outer$k)
		return fn.Name()
	}
	if recv := fn.Signature.Recv(); recv != nil {
		t := recv.Type()
		star := ""
		if p, ok := t.(*types.Pointer); ok {
			t = p.Elem()
			star = "*"
		}
		if n, ok := t.(*types.Named); ok {
			return "(" + star + n.Obj().Name() + ")." + fn.Name()
		}
	}
	return fn.Name()
}

func closureKey(fn *ssa.Function) string {
	// (T).Method$1 or Func$1 ; nested: Func$1$2
	root := fn
	for root.Parent() != nil {
		root = root.Parent()
	}
	suffix := strings.TrimPrefix(fn.Name(), root.Name())
	return funcKey(root) + suffix
}

func (e *Engine) indexFuncs(path string, sp *ssa.Package) {
	var addFn func(fn *ssa.Function)
	addFn = func(fn *ssa.Function) {
		if fn == nil || fn.Blocks == nil {
			return
		}
		k := funcKey(fn)
		if fn.Parent() != nil {
			k = closureKey(fn)
		}
		e.Funcs[path+"::"+k] = fn
		for _, an := range fn.AnonFuncs {
			addFn(an)
		}
		if fn.Name() == "init" {
			for _, b := range fn.Blocks {
				for _, in := range b.Instrs {
					if st, ok := in.(*ssa.Store); ok {
						if g, ok := st.Addr.(*ssa.Global); ok {
							if c, ok := st.Val.(*ssa.Const); ok {
								if _, dup := e.globalInit[g]; dup {
									e.mutGlobals[g] = true // assigned more than once
								}
								e.globalInit[g] = c
							} else {
								e.globalInit[g] = nil
							}
						}
					}
				}
			}
		}
		if fn.Name() != "init" {
			for _, b := range fn.Blocks {
				for _, in := range b.Instrs {
					if st, ok := in.(*ssa.Store); ok {
						if g, ok := st.Addr.(*ssa.Global); ok {
							e.mutGlobals[g] = true
						}
					}
				}
			}
		}
	}
	for _, m := range sp.Members {
		switch m := m.(type) {
		case *ssa.Function:
			addFn(m)
		case *ssa.Type:
			T := m.Type()
			for _, t := range []types.Type{T, types.NewPointer(T)} {
				ms := sp.Prog.MethodSets.MethodSet(t)
				for i := 0; i < ms.Len(); i++ {
					fn := sp.Prog.MethodValue(ms.At(i))
					if fn != nil && fn.Pkg == sp && fn.Synthetic == "" {
						addFn(fn)
					}
				}
			}
		}
	}
}

// ContractFor returns the contract for an ssa function (repo function or extern), if any.
func (e *Engine) ContractFor(fn *ssa.Function) *FuncContract {
	if fn == nil {
		return nil
	}
	var path string
	if fn.Pkg != nil {
		path = fn.Pkg.Pkg.Path()
	} else if fn.Object() != nil && fn.Object().Pkg() != nil {
		path = fn.Object().Pkg().Path()
	} else if o := fn.Origin(); o != nil && o.Pkg != nil {
		path = o.Pkg.Pkg.Path()
	}
	k := funcKey(fn)
	if fn.Parent() != nil {
		k = closureKey(fn)
	}
	if c, ok := e.Spec.Funcs[path+"::"+k]; ok {
		return c
	}
	// vendored copies
	if i := strings.Index(path, "/vendor/"); i >= 0 {
		if c, ok := e.Spec.Funcs[path[i+8:]+"::"+k]; ok {
			return c
		}
	}
	return nil
}

// IfaceContract returns the contract for an interface method.
func (e *Engine) IfaceContract(recv types.Type, method *types.Func) *FuncContract {
	// named interface
	if n, ok := recv.(*types.Named); ok && n.Obj().Pkg() != nil {
		if c, ok := e.Spec.Funcs[n.Obj().Pkg().Path()+"::("+n.Obj().Name()+")."+method.Name()]; ok {
			return c
		}
	}
	// embedded interface: look for the interface that declares the method
	if method.Pkg() != nil {
		if sig, ok := method.Type().(*types.Signature); ok && sig.Recv() != nil {
			if n, ok := sig.Recv().Type().(*types.Named); ok && n.Obj().Pkg() != nil {
				if c, ok := e.Spec.Funcs[n.Obj().Pkg().Path()+"::("+n.Obj().Name()+")."+method.Name()]; ok {
					return c
				}
			}
		}
	}
	if recv.String() == "error" && method.Name() == "Error" {
		if c, ok := e.Spec.Funcs["builtin::(error).Error"]; ok {
			return c
		}
	}
	return nil
}

func (e *Engine) note(format string, a ...interface{}) {
	e.Notes[fmt.Sprintf(format, a...)] = true
}
