package main

// Per-function verification driver: entry assumptions, ensures / modifies obligations, lemmas, query generation.

import (
	"fmt"
	"go/types"
	"os"
	"regexp"
	"sort"
	"strings"

	"golang.org/x/tools/go/ssa"
)

func (e *Engine) newFnCtx(key string, fn *ssa.Function, ctr *FuncContract) *FnCtx {
	fc := &FnCtx{eng: e, top: fn, key: key, contract: ctr, P: NewPrelude(), compSort: map[string]string{}, declared: map[string]bool{},
		safetyN: map[string]int{}, specDone: map[string]bool{}}
	fc.epochs = []*epochNode{{kind: 0, memo: map[string]string{}}}
	fc.compSort["TOP"] = "Int"
	return fc
}

// VerifyFunc generates all obligations of a function under contract.
func (e *Engine) VerifyFunc(key string, small bool) *FnCtx {
	fn := e.Funcs[key]
	ctr := e.Spec.Funcs[key]
	fc := e.newFnCtx(key, fn, ctr)
	fc.P.small = small
	fc.rgMode = e.rgNext
	if fn == nil {
		fc.errf("binding: no function %s in the current tree", key)
		return fc
	}
	fc.safety = ctr.PanicsNever
	fc.pureMode = ctr.Pure
	fr := newFrame(fc, fn, "")
	fr.contract = ctr
	fc.topFr = fr
	entry := &State{comp: map[string]string{}, epoch: 0}
	top0 := fc.declare("top0", "Int")
	fc.fact("", "(>= %s 1)", top0)
	entry.comp["TOP"] = top0
	fc.entry = entry
	for _, p := range fn.Params {
		n := fc.declare("p_"+mangle(p.Name()), fc.P.SortOf(p.Type()))
		fr.vals[p] = n
		fr.loadedAssume(n, p.Type(), entry)
	}
	for _, fv := range fn.FreeVars {
		n := fc.declare("fv_"+mangle(fv.Name()), fc.P.SortOf(fv.Type()))
		fr.vals[fv] = n
		if _, ok := fv.Type().Underlying().(*types.Pointer); ok {
			fc.fact("", "(and (> %s 0) (< %s %s))", n, n, top0)
		}
	}
	// captured variables are different variables: their cells are pairwise distinct
	var cellRefs []string
	for _, fv := range fn.FreeVars {
		if _, ok := fv.Type().Underlying().(*types.Pointer); ok {
			cellRefs = append(cellRefs, fr.vals[fv])
		}
	}
	if len(cellRefs) > 1 {
		fc.fact("", "(distinct %s)", strings.Join(cellRefs, " "))
	}
	// preconditions
	envPre := fr.baseEnv(entry)
	envPre.old = nil
	envPre.lookup = func(name string, s *State) (TV, bool) { return fr.paramLookup(name, s) }
	for _, c := range ctr.Requires {
		g := envPre.trAssume(c.E)
		fc.facts = append(fc.facts, Fact{Text: "(assert " + g + ")", Tag: "pre:" + c.Label})
	}
	if ctr.IterBody && fn.Parent() != nil && len(fn.Params) == 2 {
		// `iterated`: the collection whose iterator calls this closure; the element passed is a member of it
		it := fc.declare("iterated", "Int")
		fr.iterated = it
		p0, _ := fr.paramLookup(fn.Params[0].Name(), entry)
		p1, _ := fr.paramLookup(fn.Params[1].Name(), entry)
		switch ctr.IterKind {
		case "goset":
			fc.compDecl("G:gsmem", "(Array Int (Array Int Bool))")
			fc.fact("", "(select (select %s %s) %s)", fc.lookup(entry, "G:gsmem"), it, p1.T)
		case "syncmap":
			smv, smd := fc.syncMapComps()
			fc.fact("", "(and (select (select %s %s) %s) (= %s (select (select %s %s) %s)))", fc.lookup(entry, smd), it, p0.T, p1.T, fc.lookup(entry, smv), it, p0.T)
		}
	}
	fc.nPreFacts = len(fc.facts)
	fr.run(entry, "true")
	// postconditions
	for _, r := range fr.rets {
		r := r
		env := fr.baseEnv(r.state)
		env.lookup = func(name string, s *State) (TV, bool) {
			if tv, ok := fr.paramLookup(name, s); ok {
				// parameters denote entry values
				return tv, true
			}
			return fr.resolveName(name, r.blk, true, s, nil)
		}
		var resT types.Type
		res := fn.Signature.Results()
		for i := 0; i < res.Len(); i++ {
			tv := TV{r.results[i], fc.P.SortOf(res.At(i).Type()), res.At(i).Type()}
			env.names[fmt.Sprintf("result%d", i)] = tv
			if i == 0 {
				env.names["result"] = tv
			}
			if res.At(i).Name() != "" && res.At(i).Name() != "_" {
				env.names[res.At(i).Name()] = tv
			}
		}
		_ = resT
		site := fmt.Sprintf("b%d", r.blk.Index)
		// ghost code at function exit (`ghost-set G = E`): the frame is judged on the state before it
		preGhost := r
		if len(ctr.GhostSets) > 0 {
			preGhost.state = r.state.clone()
			for _, gs := range ctr.GhostSets {
				env.ident(gs.Name)
				v := env.tr(gs.E)
				r.state.comp["G:"+gs.Name] = v.T
			}
			env.cur = r.state
		}
		for _, c := range ctr.Ensures {
			if len(c.OnlyFor) > 0 && e.CurProp != "" && !containsStr(c.OnlyFor, e.CurProp) {
				continue
			}
			goalE := c.E
			// `afterloop(k) ==> P`: only at return sites dominated by the header of loop k
			if imp, ok := goalE.(*EBinary); ok && imp.Op == "==>" {
				if call, ok := imp.X.(*ECall); ok && call.Fun == "afterloop" && len(call.Args) == 1 {
					var n int
					if lit, ok := call.Args[0].(*EInt); ok {
						fmt.Sscan(lit.Val, &n)
					}
					if n >= len(fr.headers) || !fr.headers[n].Dominates(r.blk) {
						continue
					}
					goalE = imp.Y
				}
				// `!defined(x) ==> P`: only at return sites where local x is not defined yet
				if neg, ok := imp.X.(*EUnary); ok && neg.Op == "!" {
					if call, ok := neg.X.(*ECall); ok && call.Fun == "defined" && len(call.Args) == 1 {
						id, _ := call.Args[0].(*EIdent)
						fr.noUndef = true
						_, okDef := fr.resolveName(id.Name, r.blk, true, r.state, nil)
						fr.noUndef = false
						if okDef {
							continue
						}
						goalE = imp.Y
					}
				}
				// `defined(x) ==> P`: only at return sites reached after local x was defined
				if call, ok := imp.X.(*ECall); ok && call.Fun == "defined" && len(call.Args) == 1 {
					id, _ := call.Args[0].(*EIdent)
					fr.noUndef = true
					_, okDef := fr.resolveName(id.Name, r.blk, true, r.state, nil)
					fr.noUndef = false
					if !okDef {
						continue
					}
					goalE = imp.Y
				}
			}
			for k, part := range splitConj(goalE) {
				g := env.tr(part)
				fc.obls = append(fc.obls, &Obl{Func: key, Kind: "ensures", Label: c.Label, Site: fmt.Sprintf("%s.%d", site, k), NFacts: len(fc.facts), Path: r.reach, Goal: g.T, Using: c.Using, Text: c.Text, Window: c.Window, Since: c.Since, blk: r.blk, fr: fr})
			}
		}
		// closures used as iterator bodies (foreachCall): each_* clauses must be one-state and stable under another call of
		// the closure with any other arguments; the requires must hold again whenever the closure returns true.
		if fn.Parent() != nil {
			stable := func(kind string, c *Clause, underTrue bool) {
				entryEnv := fr.baseEnv(entry)
				entryEnv.old = nil
				entryEnv.lookup = env.lookup
				exitEnv := fr.baseEnv(r.state)
				exitEnv.old = nil
				exitEnv.lookup = env.lookup
				for i, p := range fn.Params {
					tv := TV{fc.declare(fmt.Sprintf("other_%s_%d", mangle(p.Name()), i), fc.P.SortOf(p.Type())), fc.P.SortOf(p.Type()), p.Type()}
					entryEnv.names[p.Name()] = tv
					exitEnv.names[p.Name()] = tv
				}
				if strings.Contains(c.Text, "old(") {
					fc.errf("%s clause [%s] must be a one-state predicate (no old())", kind, c.Label)
					return
				}
				post := exitEnv.tr(c.E)
				goal := post.T
				// the other call's arguments are members of the iterated collection too (as of this call's entry)
				otherMember := "true"
				if fr.iterated != "" && len(fn.Params) == 2 {
					o0, o1 := entryEnv.names[fn.Params[0].Name()].T, entryEnv.names[fn.Params[1].Name()].T
					switch ctr.IterKind {
					case "goset":
						otherMember = fmt.Sprintf("(select (select %s %s) %s)", fc.lookup(entry, "G:gsmem"), fr.iterated, o1)
					case "syncmap":
						smv, smd := fc.syncMapComps()
						otherMember = fmt.Sprintf("(and (select (select %s %s) %s) (= %s (select (select %s %s) %s)))", fc.lookup(entry, smd), fr.iterated, o0, o1, fc.lookup(entry, smv), fr.iterated, o0)
					}
				}
				if underTrue {
					if len(r.results) == 1 {
						goal = fmt.Sprintf("(=> %s %s)", r.results[0], post.T)
					}
				} else {
					pre := entryEnv.tr(c.E)
					goal = fmt.Sprintf("(=> (and %s %s) %s)", otherMember, pre.T, post.T)
				}
				fc.obls = append(fc.obls, &Obl{Func: key, Kind: kind, Label: c.Label, Site: site, NFacts: len(fc.facts), Path: r.reach, Goal: goal, Using: c.Using, Text: c.Text})
			}
			hasEach := false
			for _, c := range ctr.Ensures {
				if strings.HasPrefix(c.Label, "each_") {
					hasEach = true
					stable("each-stable", c, false)
				}
			}
			if hasEach || ctr.IterBody {
				for _, c := range ctr.Requires {
					stable("requires-reestablished", c, true)
				}
			}
		}
		for _, c := range ctr.AsIs {
			g := env.tr(c.E)
			fc.obls = append(fc.obls, &Obl{Func: key, Kind: "asis", Label: c.Label, Site: site, NFacts: len(fc.facts), Path: r.reach, Goal: g.T, Using: c.Using, Text: c.Text})
		}
		if ctr.PureDef != nil && len(r.results) == 1 {
			g := env.tr(ctr.PureDef.E)
			fc.obls = append(fc.obls, &Obl{Func: key, Kind: "ensures", Label: "def", Site: site, NFacts: len(fc.facts), Path: r.reach, Goal: fmt.Sprintf("(= %s %s)", r.results[0], g.T), Text: ctr.PureDef.Text})
		}
		fr.modifiesObls(ctr, envPre, preGhost, site)
	}
	if len(fr.rets) == 0 {
		fc.errf("%s has no return", key)
	}
	return fc
}

// modifiesObls: the frame of the function is an obligation (proved, not assumed).
func (fr *frame) modifiesObls(ctr *FuncContract, envPre *Env, r retSite, site string) {
	fc := fr.fc
	for _, m := range ctr.Modifies {
		if m == "*" {
			return
		}
	}
	entry := fr.entryState
	// allowed targets
	var targets []modTarget
	for _, m := range ctr.Modifies {
		targets = append(targets, fr.resolveModItem(envPre, m)...)
	}
	if r.state.epoch != entry.epoch {
		fc.obls = append(fc.obls, &Obl{Func: fc.key, Kind: "modifies", Label: "heap", Site: site, NFacts: len(fc.facts), Path: r.reach, Goal: "false", Text: "calls with unknown effects: the frame cannot be established (declare `modifies *`)"})
		return
	}
	var keys []string
	for k := range r.state.comp {
		keys = append(keys, k)
	}
	sort.Strings(keys)
	top0 := entry.comp["TOP"]
	for _, k := range keys {
		if !(isHeapKey(k) || strings.HasPrefix(k, "G:")) {
			continue
		}
		fin := r.state.comp[k]
		ini := fc.lookup(entry, k)
		if fin == ini {
			continue
		}
		var goal string
		sortK := fc.compSort[k]
		switch {
		case strings.HasPrefix(k, "X:"):
			allowed := false
			for _, t := range targets {
				if t.key == k {
					allowed = true
				}
			}
			if allowed {
				continue
			}
			goal = fmt.Sprintf("(= %s %s)", fin, ini)
		case strings.HasPrefix(k, "G:"):
			whole := false
			var refs []string
			for _, t := range targets {
				if t.key == k {
					if t.ref == "" {
						whole = true
					} else {
						refs = append(refs, t.ref)
					}
				}
			}
			if whole {
				continue
			}
			if !strings.HasPrefix(sortK, "(Array ") {
				goal = fmt.Sprintf("(= %s %s)", fin, ini)
			} else {
				var ex []string
				for _, rf := range refs {
					ex = append(ex, fmt.Sprintf("(not (= fr_k %s))", rf))
				}
				goal = fmt.Sprintf("(forall ((fr_k %s)) (=> (and true %s) (= (select %s fr_k) (select %s fr_k))))", arrayDomain(sortK), strings.Join(ex, " "), fin, ini)
			}
		default:
			whole := false
			var ex []string
			var entryEx []string
			for _, t := range targets {
				if t.key != k {
					continue
				}
				switch {
				case t.ref == "":
					whole = true
				case t.mapKey != "":
					entryEx = append(entryEx, fmt.Sprintf("(and (= fr_r %s) (= fr_k %s))", t.ref, t.mapKey))
				default:
					ex = append(ex, fmt.Sprintf("(not (= fr_r %s))", t.ref))
				}
			}
			if whole {
				continue
			}
			if strings.HasPrefix(k, "SM:") {
				inner := arrayRange(sortK)
				exc := "false"
				if len(entryEx) > 0 {
					exc = "(or " + strings.Join(entryEx, " ") + ")"
				}
				// sync.Map cells live at interior addresses: a map that is (a field of (a field of)) an object allocated by
				// this call is not part of the caller-visible frame
				fc.P.Declare("faowner", "(declare-fun faowner (Int) Int)")
				old := fmt.Sprintf("(and (< fr_r %s) (< (faowner fr_r) %s) (< (faowner (faowner fr_r)) %s))", top0, top0, top0)
				goal = fmt.Sprintf("(forall ((fr_r Int) (fr_k %s)) (=> (and %s %s (not %s)) (= (select (select %s fr_r) fr_k) (select (select %s fr_r) fr_k))))", arrayDomain(inner), old, strings.Join(ex, " "), exc, fin, ini)
			} else if strings.HasPrefix(k, "MV:") || strings.HasPrefix(k, "MD:") {
				inner := arrayRange(sortK)
				exc := "false"
				if len(entryEx) > 0 {
					exc = "(or " + strings.Join(entryEx, " ") + ")"
				}
				goal = fmt.Sprintf("(forall ((fr_r Int) (fr_k %s)) (=> (and (> fr_r 0) (< fr_r %s) %s (not %s)) (= (select (select %s fr_r) fr_k) (select (select %s fr_r) fr_k))))", arrayDomain(inner), top0, strings.Join(ex, " "), exc, fin, ini)
			} else {
				goal = fmt.Sprintf("(forall ((fr_r Int)) (=> (and (> fr_r 0) (< fr_r %s) %s) (= (select %s fr_r) (select %s fr_r))))", top0, strings.Join(ex, " "), fin, ini)
			}
		}
		fc.obls = append(fc.obls, &Obl{Func: fc.key, Kind: "modifies", Label: fc.labelOfComp(k), Site: site, NFacts: len(fc.facts), Path: r.reach, Goal: goal, Text: "frame: " + k + " unchanged outside the modifies clause"})
	}
}

func containsStr(xs []string, x string) bool {
	for _, y := range xs {
		if y == x {
			return true
		}
	}
	return false
}

func (fc *FnCtx) labelOfComp(k string) string {
	if l, ok := fc.compLabel[k]; ok {
		return l
	}
	return mangle(k)
}

// VerifyLemma: a lemma is proved from the prelude, spec function definitions and axioms only.
func (e *Engine) VerifyLemma(l *Lemma, small bool) *FnCtx {
	fc := e.newFnCtx("lemma::"+l.Label, nil, nil)
	fc.P.small = small
	entry := &State{comp: map[string]string{"TOP": fc.declare("top0", "Int")}, epoch: 0}
	fc.entry = entry
	var tpkg *types.Package
	if p, ok := e.Pkgs[l.Pkg]; ok {
		tpkg = p.Types
	}
	env := &Env{fc: fc, tpkg: tpkg, names: map[string]TV{}, cur: entry}
	var goals []string
	for _, part := range splitConj(l.E) {
		goals = append(goals, env.tr(part).T)
	}
	// the proved contracts of the pure Go functions mentioned in the lemma are available as quantified facts
	done := map[string]bool{}
	for changed := true; changed; {
		changed = false
		for key := range fc.pfUsed {
			if done[key] {
				continue
			}
			done[key] = true
			changed = true
			fc.contractAxiom(key)
		}
	}
	for k, g := range goals {
		fc.obls = append(fc.obls, &Obl{Func: "lemma", Kind: "lemma", Label: l.Label, Site: fmt.Sprint(k), NFacts: len(fc.facts), Path: "true", Goal: g, Using: l.Using, Text: l.Text})
	}
	return fc
}

// VerifyGuarantee: the rely/guarantee pass of a function whose contract has guarantee clauses. The function is analysed once
// more with interference: before each of its sync.Map steps the maps are replaced by arbitrary ones related to the previous
// state by the rely clauses; each step must then satisfy every guarantee clause (two-state: old() = just before the step,
// after interference). Only the guarantee obligations of this pass are kept; the function's sequential contract is the
// business of VerifyFunc.
func (e *Engine) VerifyGuarantee(key string) *FnCtx {
	e.rgNext = true
	fc := e.VerifyFunc(key, false)
	e.rgNext = false
	fc.key = key
	var keep []*Obl
	for _, o := range fc.obls {
		if o.Kind == "guarantee" {
			keep = append(keep, o)
		}
	}
	fc.obls = keep
	fc.rgOnly = true
	return fc
}

// VerifyRefinement: interface-implementation obligation. In an arbitrary pre-state satisfying the coupling and the
// interface's requires, the implementation's requires hold (obligations); the implementation is then "called" through its
// own contract (modifies havocked, ensures assumed); in the resulting state, with the coupling assumed again (it DEFINES the
// interface's ghost view of the new state), every ensures clause of the interface contract must hold (obligations).
// Parameters are shared by position; the interface's receiver is the boxed implementation receiver.
func (e *Engine) VerifyRefinement(r *Refinement) *FnCtx {
	fc := e.newFnCtx("refines::"+r.Label, nil, nil)
	impl, ictr := e.Funcs[r.Impl], e.Spec.Funcs[r.Impl]
	actr := e.Spec.Funcs[r.Iface]
	if impl == nil || ictr == nil || actr == nil {
		fc.errf("refines %s: implementation, its contract or the interface contract is missing (%s -> %s)", r.Label, r.Impl, r.Iface)
		return fc
	}
	fr := newFrame(fc, impl, "")
	entry := &State{comp: map[string]string{}, epoch: 0}
	top0 := fc.declare("top0", "Int")
	fc.fact("", "(>= %s 1)", top0)
	entry.comp["TOP"] = top0
	fc.entry = entry
	fr.entryState = entry
	var argTerms []string
	var argTypes []types.Type
	for i, p := range impl.Params {
		n := fc.declare(fmt.Sprintf("p%d_%s", i, mangle(p.Name())), fc.P.SortOf(p.Type()))
		fr.vals[p] = n
		fr.loadedAssume(n, p.Type(), entry)
		argTerms = append(argTerms, n)
		argTypes = append(argTypes, p.Type())
	}
	if len(argTerms) == 0 || impl.Signature.Recv() == nil {
		fc.errf("refines %s: the implementation must be a method", r.Label)
		return fc
	}
	fc.fact("", "(not (= %s 0))", argTerms[0])
	// interface-side names: receiver boxed, other parameters by position
	ifaceEnv := func(pre, post *State, resName string, resT types.Type) *Env {
		env := &Env{fc: fc, tpkg: fc.pkgTypes(actr.Pkg), names: map[string]TV{}, cur: post, old: pre}
		for i, n := range actr.Params {
			if i >= len(argTerms) || n == "" || n == "_" {
				continue
			}
			if i == 0 {
				k := fc.P.Box(argTypes[0])
				env.names[n] = TV{fmt.Sprintf("(box_%s %s)", k, argTerms[0]), "Int", types.NewInterfaceType(nil, nil)}
				continue
			}
			env.names[n] = TV{argTerms[i], fc.P.SortOf(argTypes[i]), argTypes[i]}
		}
		bindResults(env, fc, resName, resT, impl.Signature)
		return env
	}
	implEnv := func(st *State) *Env {
		env := &Env{fc: fc, tpkg: fc.pkgTypes(r.Pkg), names: map[string]TV{}, cur: st}
		for i, p := range impl.Params {
			env.names[p.Name()] = TV{argTerms[i], fc.P.SortOf(argTypes[i]), argTypes[i]}
		}
		return env
	}
	// pre-state assumptions
	fc.fact("", "%s", implEnv(entry).tr(r.Coupling).T)
	preIface := ifaceEnv(entry, entry, "", nil)
	preIface.old = nil
	for _, c := range actr.Requires {
		fc.fact("", "%s", preIface.tr(c.E).T)
	}
	fc.nPreFacts = len(fc.facts)
	// the implementation, through its contract (its requires become obligations)
	st := entry.clone()
	var resT types.Type
	res := impl.Signature.Results()
	resName := ""
	switch res.Len() {
	case 0:
	case 1:
		resT = res.At(0).Type()
		resName = fc.declare("res", fc.P.SortOf(resT))
	default:
		resT = res
		resName = "res"
		for i := 0; i < res.Len(); i++ {
			fc.declare(fmt.Sprintf("res_r%d", i), fc.P.SortOf(res.At(i).Type()))
		}
	}
	fr.applyContract(ictr, impl, nil, argTerms, argTypes, resName, resT, st, "true", nil)
	// the interface's view of the new state
	fc.fact("", "%s", implEnv(st).tr(r.Coupling).T)
	post := ifaceEnv(entry, st, resName, resT)
	for _, c := range actr.Ensures {
		if len(r.Clauses) > 0 {
			want := false
			for _, l := range r.Clauses {
				if l == c.Label {
					want = true
				}
			}
			if !want {
				continue
			}
		}
		for k, part := range splitConj(c.E) {
			g := post.tr(part)
			fc.obls = append(fc.obls, &Obl{Func: "refines:" + r.Label, Kind: "refines", Label: r.Label + ":" + c.Label, Site: fmt.Sprint(k), NFacts: len(fc.facts), Path: "true", Goal: g.T, Text: c.Text})
		}
	}
	return fc
}

// contractAxiom: forall args. requires ==> ensures[result := pf(args)] for a pure Go function under (proved) contract.
func (fc *FnCtx) contractAxiom(key string) {
	fn := fc.eng.Funcs[key]
	ctr := fc.eng.Spec.Funcs[key]
	if fn == nil || ctr == nil {
		return
	}
	var tpkg *types.Package
	tpkg = fc.pkgTypes(ctr.Pkg)
	env := &Env{fc: fc, tpkg: tpkg, names: map[string]TV{}, cur: fc.entry}
	name, _ := fc.pureFun(fn)
	var qs, as []string
	for _, p := range fn.Params {
		q := "ca_" + mangle(p.Name())
		s := fc.P.SortOf(p.Type())
		env.names[p.Name()] = TV{q, s, p.Type()}
		qs = append(qs, fmt.Sprintf("(%s %s)", q, s))
		as = append(as, q)
	}
	app := fmt.Sprintf("(%s %s)", name, strings.Join(as, " "))
	rT := fn.Signature.Results().At(0).Type()
	tv := TV{app, fc.P.SortOf(rT), rT}
	env.names["result"] = tv
	env.names["result0"] = tv
	if n := fn.Signature.Results().At(0).Name(); n != "" {
		env.names[n] = tv
	}
	var pre []string
	for _, c := range ctr.Requires {
		pre = append(pre, env.tr(c.E).T)
	}
	for _, c := range ctr.Ensures {
		body := env.tr(c.E).T
		if len(pre) > 0 {
			body = fmt.Sprintf("(=> (and %s) %s)", strings.Join(pre, " "), body)
		}
		fc.facts = append(fc.facts, Fact{Text: fmt.Sprintf("(assert (forall (%s) (! %s :pattern (%s))))", strings.Join(qs, " "), body, app), Tag: "post:" + ctr.Key + ":" + c.Label})
	}
}

// axiomFacts: every axiom of the spec files, translated in this context (only those whose symbols are in use are needed, but
// all are cheap). Axioms are trusted and listed in the evidence.
func (fc *FnCtx) axiomFacts(using []string) []string {
	var out []string
	for _, l := range fc.eng.Spec.Lemmas {
		if !l.Axiom {
			// proved lemmas may be used as facts when named in `using`
			found := false
			for _, u := range using {
				if u == l.Label {
					found = true
				}
			}
			if !found {
				continue
			}
		} else {
			// include an axiom only if it is named in using, or if it is marked global (label starts with "g_")
			found := strings.HasPrefix(l.Label, "g_")
			for _, u := range using {
				if u == l.Label {
					found = true
				}
			}
			if !found {
				continue
			}
		}
		var tpkg *types.Package
		tpkg = fc.pkgTypes(l.Pkg)
		env := &Env{fc: fc, tpkg: tpkg, names: map[string]TV{}, cur: fc.entry}
		n := len(fc.errs)
		g := env.tr(l.E)
		if len(fc.errs) > n {
			// axiom mentions types that are not loaded: skip silently for global axioms
			if strings.HasPrefix(l.Label, "g_") {
				fc.errs = fc.errs[:n]
				continue
			}
		}
		out = append(out, "(assert "+g.T+") ; "+l.Label)
	}
	return out
}

var symRe = regexp.MustCompile(`[A-Za-z_][A-Za-z0-9_.$@#]*`)

// sliceFacts: cone-of-influence slicing. Dropping hypotheses is always sound; it keeps queries of large functions small.
// A definitional fact (= sym term) is kept iff sym is relevant; any other fact is kept iff it mentions a relevant
// non-control symbol. Kept facts make their symbols relevant (fixpoint).
func (fc *FnCtx) sliceFacts(o *Obl, idxs []int) map[int]bool {
	relevant := map[string]bool{}
	addSyms := func(t string) bool {
		changed := false
		for _, m := range symRe.FindAllString(t, -1) {
			if fc.declared[m] && !relevant[m] {
				relevant[m] = true
				changed = true
			}
		}
		return changed
	}
	addSyms(o.Goal)
	addSyms(o.Path)
	type finfo struct {
		def  string
		syms []string
	}
	isControl := func(s string) bool {
		return strings.Contains(s, "R_") && (strings.HasPrefix(s, "R_") || strings.Contains(s, "_R_")) || strings.HasPrefix(s, "E_") || strings.Contains(s, "_E_")
	}
	infos := map[int]*finfo{}
	for _, i := range idxs {
		if fc.facts[i].Tag == "pf" {
			continue // "result == pf(args)" links are only needed for lemma-style reasoning; never in sliced queries
		}
		t := fc.facts[i].Text
		fi := &finfo{def: fc.facts[i].Def}
		seen := map[string]bool{}
		for _, m := range symRe.FindAllString(t, -1) {
			if fc.declared[m] && !seen[m] {
				seen[m] = true
				fi.syms = append(fi.syms, m)
			}
		}
		if fi.def == "" {
			if strings.HasPrefix(t, "(assert (= ") {
				rest := t[len("(assert (= "):]
				if k := strings.IndexAny(rest, " )"); k > 0 && fc.declared[rest[:k]] {
					fi.def = rest[:k]
				}
			}
		}
		if fi.def == "" {
			// a fact "about" its first data symbol
			for _, m := range fi.syms {
				if !isControl(m) {
					fi.def = m
					break
				}
			}
		}
		infos[i] = fi
	}
	// control window: reach/edge symbols of blocks within o.Window CFG levels before the site keep their definitions;
	// farther control symbols are left unconstrained
	inWindow := map[string]bool{}
	if o.Window > 0 && o.Since == "" && o.blk != nil && o.fr != nil {
		level := map[*ssa.BasicBlock]int{o.blk: 0}
		queue := []*ssa.BasicBlock{o.blk}
		for len(queue) > 0 {
			b := queue[0]
			queue = queue[1:]
			inWindow[o.fr.reach[b]] = true
			for _, p := range b.Preds {
				if e, ok := o.fr.edge[[2]int{p.Index, b.Index}]; ok {
					inWindow[e] = true
				}
				if _, seen := level[p]; !seen && level[b] < o.Window {
					level[p] = level[b] + 1
					queue = append(queue, p)
				}
			}
		}
	}
	if o.Since != "" && o.fr != nil {
		o.Window = 1
		line := o.fr.anchorLine(o.Since)
		if line < 0 {
			fc.errf("since %q: text not found in %s", o.Since, o.fr.fn.Name())
		}
		for _, b := range o.fr.fn.Blocks {
			in := false
			for _, ins := range b.Instrs {
				if ins.Pos().IsValid() && o.fr.fn.Prog.Fset.Position(ins.Pos()).Line >= line {
					in = true
					break
				}
			}
			if in && line >= 0 {
				inWindow[o.fr.reach[b]] = true
			}
		}
		// an edge keeps its definition only if its source block is in the window too
		for _, b := range o.fr.fn.Blocks {
			if !inWindow[o.fr.reach[b]] {
				continue
			}
			for _, p := range b.Preds {
				if e, ok := o.fr.edge[[2]int{p.Index, b.Index}]; ok && inWindow[o.fr.reach[p]] {
					inWindow[e] = true
				}
			}
		}
	}
	if os.Getenv("GOVC_DEBUG") != "" {
		fmt.Fprintf(os.Stderr, "slice %s@%s since=%q window=%d inWindow=%d\n", o.Label, o.Site, o.Since, o.Window, len(inWindow))
	}
	keep := map[int]bool{}
	for changed := true; changed; {
		changed = false
		for _, i := range idxs {
			if keep[i] || infos[i] == nil {
				continue
			}
			fi := infos[i]
			take := false
			if fi.def != "" {
				take = relevant[fi.def]
				if take && o.Window > 0 && (strings.HasPrefix(fi.def, "R_") || strings.HasPrefix(fi.def, "E_")) && !inWindow[fi.def] {
					take = false
				}
			} else {
				take = true // no data symbol at all (e.g. constraints on control symbols only)
				for _, s := range fi.syms {
					if !relevant[s] {
						take = false
					}
				}
			}
			if take {
				keep[i] = true
				changed = true
				for _, s := range fi.syms {
					relevant[s] = true
				}
			}
		}
	}
	return keep
}

// Query builds the SMT-LIB script of one obligation.
func (fc *FnCtx) Query(o *Obl, negate bool) string {
	return fc.QueryOpt(o, negate, false)
}

func (fc *FnCtx) QueryOpt(o *Obl, negate bool, slice bool) string {
	var b strings.Builder
	axioms := fc.axiomFacts(o.Using) // may extend the prelude: do it first
	b.WriteString("(set-option :produce-models true)\n(set-logic ALL)\n")
	b.WriteString(fc.P.String())
	for _, d := range fc.decls {
		b.WriteString(d + "\n")
	}
	for _, a := range axioms {
		b.WriteString(a + "\n")
	}
	var idxs []int
	for i, f := range fc.facts {
		if i >= o.NFacts {
			break
		}
		if !factAllowed(f, o) {
			continue
		}
		idxs = append(idxs, i)
	}
	var keep map[int]bool
	if slice {
		keep = fc.sliceFacts(o, idxs)
	}
	for _, i := range idxs {
		if keep != nil && !keep[i] {
			continue
		}
		b.WriteString(fc.facts[i].Text + "\n")
	}
	b.WriteString("(assert " + o.Path + ")\n")
	if negate {
		b.WriteString("(assert (not " + o.Goal + "))\n")
	}
	b.WriteString("(check-sat)\n")
	return b.String()
}

func factAllowed(f Fact, o *Obl) bool {
	if f.Tag == "" {
		return true
	}
	parts := strings.Split(f.Tag, ":")
	switch parts[0] {
	case "inv":
		// inv:<loop>:<label>:<stage>
		if len(o.Using) > 0 {
			for _, u := range o.Using {
				if u == parts[2] || u == "inv:"+parts[2] {
					return true
				}
			}
			// an invariant obligation always may assume itself (same label) at the loop head
			if (o.Kind == "invariant-preserved") && o.Label == fmt.Sprintf("loop%s:%s", parts[1], parts[2]) {
				return true
			}
			return false
		}
		if o.Kind == "invariant-preserved" || o.Kind == "invariant-init" {
			var stage int
			fmt.Sscan(parts[3], &stage)
			if fmt.Sprint(o.Loop) == parts[1] && stage > o.Stage {
				return false
			}
		}
		return true
	case "post":
		if len(o.Using) > 0 {
			for _, u := range o.Using {
				if u == parts[len(parts)-1] || u == parts[1]+":"+parts[len(parts)-1] || u == "post" {
					return true
				}
			}
			return false
		}
		return true
	case "pre":
		return true
	}
	return true
}

// anchorLine: the first source line of the function that contains the given text (-1 if absent).
func (fr *frame) anchorLine(text string) int {
	fn := fr.fn
	if fn.Syntax() == nil {
		return -1
	}
	fset := fn.Prog.Fset
	start, end := fset.Position(fn.Syntax().Pos()), fset.Position(fn.Syntax().End())
	data, err := os.ReadFile(start.Filename)
	if ov, ok := fr.fc.eng.Overlay[start.Filename]; ok {
		data, err = ov, nil
	}
	if err != nil {
		return -1
	}
	lines := strings.Split(string(data), "\n")
	for i := start.Line; i <= end.Line && i <= len(lines); i++ {
		if strings.Contains(lines[i-1], text) {
			return i
		}
	}
	return -1
}
